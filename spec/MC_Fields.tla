---- MODULE MC_Fields ----
(* Cases of the setter / newtype machine: every api x context x value around every limit (L-2..L+2), around 2^16,
   and a value that does not fit into 31 bits; complete domains of the bounded newtypes. *)
EXTENDS Fields, Json

CONSTANT Full     \* TRUE: complete domain of Ipv6FlowLabel as well

Cases ==
  UNION {{<<t, <<>>, v>> : v \in {x \in ((IF Bits(t) <= 13 THEN 0..(2 ^ Bits(t) + 2)
                                            ELSE {0, 1, 2 ^ 19, 2 ^ 20 - 2, 2 ^ 20 - 1, 2 ^ 20, 2 ^ 20 + 1, 2 ^ 24, Huge} \cup {k * 4099 : k \in 0..255})
                                           \cup {ArgMax(t)}) : x <= ArgMax(t)}} : t \in NewTypes}
  \cup UNION {{<<"ipv4.set_payload_len", <<o>>, v>> : v \in Probe(U16MAX - 20 - o)} : o \in {0, 4, 40}}
  \cup {<<"ipv6.set_payload_length", <<>>, v>> : v \in Probe(U16MAX)}
  \cup UNION {{<<"iph4.set_payload_len", <<o, x>>, v>> : v \in Probe(U16MAX - 20 - o - x)} : o \in {0, 8}, x \in {0, 16}}
  \cup UNION {{<<"iph6.set_payload_len", <<x>>, v>> : v \in Probe(U16MAX - x)} : x \in {0, 8, 40}}
  \cup UNION {{<<a, <<>>, v>> : v \in (Probe(U16MAX - 8) \ (IF a = "udp.without_ipv4_checksum" THEN {} ELSE {Huge}))}
              : a \in {"udp.without_ipv4_checksum", "udp.with_ipv4_checksum", "udp.with_ipv6_checksum", "udp.calc_checksum_ipv4"}}
  \cup UNION {{<<a, <<o>>, v>> : v \in Probe(U16MAX - 20 - o) \ {Huge}, a \in {"tcp.calc_checksum_ipv4", "tcp.hslice.calc_checksum_ipv4", "tcp.slice.calc_checksum_ipv4"}} : o \in {0, 12, 40}}
  \cup UNION {{<<"macsec.set_payload_len", <<u>>, v>> : v \in (0..70) \cup {255, 256, 65535, Huge}} : u \in {0, 1}}
  \cup UNION {{<<a, <<>>, v>> : v \in (0..13) \cup (1010..1022) \cup {2000}} : a \in {"auth.new", "auth.set_raw_icv"}}
  \cup UNION {{<<a, <<>>, v>> : v \in (0..24) \cup (2036..2050) \cup {4000}} : a \in {"rawext.new_raw", "rawext.set_payload"}}
  \cup UNION {{<<a, <<>>, v>> : v \in (0..46) \cup {100, 255, 256}} : a \in {"ipv4.set_options", "ipv4options.try_from"}}
  \cup UNION {{<<a, <<>>, v>> : v \in {0, 1, 6, 254, 255, 256, 257, 300}} : a \in {"arp.new.hw", "arp.new.proto"}}
  \cup UNION {{<<a, <<d>>, v>> : v \in {0, 1, 4, 6, 16, 254, 255, 256, 257, 300}} : a \in {"arp.set_hw_addrs", "arp.set_protocol_addrs"}, d \in {0, 1}}
  \cup {<<"macsec.short_len.from_len", <<>>, v>> : v \in (0..70) \cup {255, 256, 319, 320, 65535, 65536, 65599, Huge}}
  \cup UNION {{<<"ipv6.set_dscp", <<tc>>, v>> : v \in 0..63} \cup {<<"ipv6.set_ecn", <<tc>>, v>> : v \in 0..3} : tc \in {0, 255, 165, 90, 3, 252}}
  \cup UNION {{<<"igmp.set_qrv", <<rb>>, v>> : v \in 0..7} \cup {<<"igmp.set_s_flag", <<rb>>, v>> : v \in 0..1} \cup {<<"igmp.set_flags", <<rb>>, v>> : v \in (0..17) \cup {255}}
              : rb \in {0, 255, 165, 90, 8, 247, 7, 248}}
  \cup {<<"igmp.max_resp_10th", <<>>, v>> : v \in 0..255}
  \cup UNION {{<<"ipv4.payload_len", <<o>>, v>> : v \in {0, 1, 19, 20, 21, 59, 60, 61, 65535} \cup Around(20 + o)} : o \in {0, 4, 40}}

VARIABLES api, ctx, v
\* (the complete 2^20 value domain of the flow label is an interval, not a materialised set: TLC limits sets to 10^6 elements)
Init == \/ \E c \in Cases : api = c[1] /\ ctx = c[2] /\ v = c[3]
        \/ Full /\ api = "Ipv6FlowLabel" /\ ctx = <<>> /\ v \in 0..(2 ^ 20 + 2)
Next == FALSE /\ UNCHANGED <<api, ctx, v>>
Spec == Init /\ [][Next]_<<api, ctx, v>>

\* the stated maximum is the true maximum: accepted <=> representable, and rejections name the limit
AcceptIffFits == LET x == Expect(api, ctx, v) IN (x.ok => x.errs = {}) /\ (~x.ok => x.errs # {} /\ x.enc = -1)
Monotone == (api \notin {"auth.new", "auth.set_raw_icv", "rawext.new_raw", "rawext.set_payload", "ipv4.set_options", "ipv4options.try_from", "macsec.set_payload_len", "macsec.short_len.from_len", "ipv4.payload_len", "arp.set_hw_addrs", "arp.set_protocol_addrs", "igmp.set_flags", "igmp.max_resp_10th"} /\ v > 0 /\ v < Huge)
              => (Expect(api, ctx, v).ok => Expect(api, ctx, v - 1).ok)
Emit == PrintT(<<"FIELD", ToJson([api |-> api, ctx |-> ctx, v |-> v])>>)
====
