---- MODULE Trace_Builder ----
(* Trace validation of PacketBuilder output.  The oracle is independent of the crate's own parser and checksum code:
   the emitted bytes are decoded by the strict reference decoder (Decoder.tla), the layer sequence and every
   configured field are compared with the builder configuration, every length field must equal the real sizes,
   and every checksum must verify under the RFC 1071 machine (Checksum.tla). *)
EXTENDS Decoder, Builder, Json, IOUtils

C == INSTANCE Checksum
CONSTANT KnownDev
Rec == ndJsonDeserialize(IOEnv.TRACE)

\* constants of the harness (harness/src/builder.rs)
SRC_MAC == <<2, 17, 34, 51, 68, 85>>     DST_MAC == <<6, 161, 162, 163, 164, 165>>
SRC4 == <<192, 168, 7, 1>>               DST4 == <<10, 255, 0, 254>>
SRC6 == <<32, 1, 13, 184, 0, 0, 0, 0, 255, 254, 0, 1, 2, 3, 4, 5>>
DST6 == <<254, 128, 0, 0, 0, 0, 0, 0, 9, 8, 7, 6, 5, 4, 3, 2>>
TTL == 61  SPORT == 49153  DPORT == 443  VID_OUTER == 2748  VID_INNER == 291  WIN == 65244  URGP == 2989
SEQ == <<137, 171, 205, 239>>  ACKN == <<16, 32, 48, 64>>  ICMP_ID == <<66, 66>>  ICMP_SEQ == <<7, 23>>

Cfg(e) == [link |-> e.cfg.link, vlan |-> e.cfg.vlan, net |-> e.cfg.net, opts |-> e.cfg.opts, auth |-> e.cfg.auth, exts |-> e.cfg.exts,
           tr |-> e.cfg.tr, tcp_flags |-> e.cfg.tcp_flags, tcp_opts |-> e.cfg.tcp_opts, last |-> e.cfg.last, plen |-> e.cfg.plen]

NetEt(c) == IF c.net = "arp" THEN ET_ARP ELSE IF IsV4(c) THEN ET_IPV4 ELSE ET_IPV6
LayerOf(r, k) == LET idx == {i \in 1..Len(r.layers) : r.layers[i].k = k} IN r.layers[CHOOSE i \in idx : \A j \in idx : i <= j]
Has(r, k) == \E i \in 1..Len(r.layers) : r.layers[i].k = k

\* order in which set_next_headers links the IPv6 extension headers (RFC 8200)
RfcNums(c) == LET has(s) == \E i \in 1..Len(c.exts) : c.exts[i] = s IN
  (IF has("hbh") THEN <<0>> ELSE <<>>) \o (IF has("dst") THEN <<60>> ELSE <<>>) \o (IF has("route") THEN <<43>> ELSE <<>>)
  \o (IF has("frag") THEN <<44>> ELSE <<>>) \o (IF has("auth") THEN <<51>> ELSE <<>>) \o (IF has("fdst") THEN <<60>> ELSE <<>>)

FieldMism(c, e, r, b) ==
  LET ipoff == LinkLen(c) + VlanLen(c)
      trlen == TrLen(c)
      l4off == ipoff + NetLen(c) + ExtLen(c) IN
  (IF c.link = "eth" /\ LayerOf(r, "eth").f # DST_MAC \o SRC_MAC \o <<IF c.vlan \in {2, 4} THEN 34984 ELSE IF c.vlan # 0 THEN 33024 ELSE NetEt(c)>> THEN {"eth.fields"} ELSE {})
  \cup (IF c.link = "sll" /\ (LayerOf(r, "sll").f[1] # 3 \/ LayerOf(r, "sll").f[2] # 1 \/ LayerOf(r, "sll").f[3] # (IF c.plen \in {1, 9} THEN 20 ELSE 6)
                             \/ SubSeq(LayerOf(r, "sll").f, 4, 11) # <<1, 2, 3, 4, 5, 6, 7, 8>> \/ LayerOf(r, "sll").f[12] # NetEt(c)) THEN {"sll.fields"} ELSE {})
  \cup (IF c.vlan \in {1, 3} /\ LayerOf(r, "vlan").f # (IF c.vlan = 1 THEN <<0, 0, VID_INNER, NetEt(c)>> ELSE <<5, 1, VID_INNER, NetEt(c)>>) THEN {"vlan.fields"} ELSE {})
  \cup (IF c.vlan = 2 /\ (r.layers[2].f # <<0, 0, VID_OUTER, 33024>> \/ r.layers[3].f # <<0, 0, VID_INNER, NetEt(c)>>) THEN {"vlan.double.fields"} ELSE {})
  \* caller supplied double VLAN header: pcp / dei / id kept, both ether types filled in by the builder
  \cup (IF c.vlan = 4 /\ (r.layers[2].f # <<3, 0, VID_OUTER, 33024>> \/ r.layers[3].f # <<5, 1, VID_INNER, NetEt(c)>>) THEN {"vlan.double.fields"} ELSE {})
  \cup (IF IsV4(c) THEN
          LET f == LayerOf(r, "ipv4").f  hl == 20 + c.opts IN
          (IF f[3] # Len(b) - ipoff THEN {"ipv4.total_len"} ELSE {})
          \cup (IF f[8] # TTL \/ SubSeq(f, 11, 14) # SRC4 \/ SubSeq(f, 15, 18) # DST4 THEN {"ipv4.addresses_or_ttl"} ELSE {})
          \cup (IF f[9] # (IF ExtLen(c) > 0 THEN 51 ELSE TrProto(c)) THEN {"ipv4.protocol"} ELSE {})
          \* a header supplied through ip(IpHeaders::Ipv4(..)) keeps its DSCP, ECN, identification and DF flag
          \cup (IF c.net = "ip4" /\ <<f[1], f[2], f[4], f[5]>> # <<45, 2, 30600, 1>> THEN {"ipv4.supplied_fields"} ELSE {})
          \cup (IF C!Fold1071(Sub(b, ipoff, hl)) # 65535 THEN {"ipv4.header_checksum"} ELSE {})
          \cup (IF ExtLen(c) > 0 /\ LayerOf(r, "auth").f[1] # TrProto(c) THEN {"ipv4.auth.next_header"} ELSE {})
        ELSE IF c.net # "arp" THEN
          LET f == LayerOf(r, "ipv6").f IN
          (IF f[5] # Len(b) - ipoff - 40 THEN {"ipv6.payload_length"} ELSE {})
          \cup (IF f[7] # TTL \/ SubSeq(f, 8, 23) # SRC6 \/ SubSeq(f, 24, 39) # DST6 THEN {"ipv6.addresses_or_hop_limit"} ELSE {})
          \cup (IF f[6] # (IF c.exts = <<>> THEN TrProto(c) ELSE RfcNums(c)[1]) THEN {"ipv6.next_header"} ELSE {})
          \cup (IF c.exts # <<>> THEN
                  LET x == LayerOf(r, "exts").f  n == Len(x) \div 4 IN
                  (IF [i \in 1..n |-> x[4 * i - 3]] # RfcNums(c) THEN {"ipv6.exts.order"} ELSE {})
                  \cup (IF n > 0 /\ x[4 * n] # TrProto(c) THEN {"ipv6.exts.last_next_header"} ELSE {})
                ELSE {})
        ELSE {})
  \cup (IF TrKind(c) = "udp" THEN
          LET f == LayerOf(r, "udp").f IN
          (IF f[1] # SPORT \/ f[2] # DPORT THEN {"udp.ports"} ELSE {}) \cup (IF f[3] # 8 + c.plen THEN {"udp.length"} ELSE {})
          \cup (IF f[4] = 0 THEN {"udp.checksum_zero"} ELSE {})
        ELSE {})
  \cup (IF TrKind(c) = "tcp" THEN
          LET f == LayerOf(r, "tcp").f
              fl == IF c.tr = "tcphdr" THEN 2 ELSE c.tcp_flags IN
          (IF f[1] # SPORT \/ f[2] # DPORT \/ SubSeq(f, 3, 6) # SEQ \/ f[13] # WIN THEN {"tcp.ports_seq_window"} ELSE {})
          \cup (IF f[12] # fl THEN {"tcp.flags"} ELSE {})
          \cup (IF SubSeq(f, 7, 10) # (IF (fl \div 16) % 2 = 1 THEN ACKN ELSE <<0, 0, 0, 0>>) THEN {"tcp.ack_number"} ELSE {})
          \cup (IF f[15] # (IF (fl \div 32) % 2 = 1 THEN URGP ELSE 0) THEN {"tcp.urgent_pointer"} ELSE {})
          \cup (IF f[11] # 5 + c.tcp_opts \div 4 THEN {"tcp.data_offset"} ELSE {})
          \cup (IF c.tcp_opts = 12 /\ SubSeq(f, 16, Len(f)) # <<2, 4, 5, 120, 1, 3, 3, 7, 4, 2, 0, 0>> THEN {"tcp.options"} ELSE {})
          \* SACK (1,2) + two more blocks given in the 2nd and 3rd slot: all three blocks are sent (kind 5, length 26), then the NOP and one END
          \cup (IF c.tcp_opts = 28 /\ SubSeq(f, 16, Len(f)) # <<5, 26, 0, 0, 0, 1, 0, 0, 0, 2, 0, 0, 0, 3, 0, 0, 0, 4, 0, 0, 0, 5, 0, 0, 0, 6, 1, 0>> THEN {"tcp.options"} ELSE {})
        ELSE {})
  \cup (IF TrKind(c) \in {"icmp4", "icmp6"} THEN
          LET f == LayerOf(r, TrKind(c)).f
              exp == CASE c.tr = "icmp4echo" -> <<8, 0>> \o ICMP_ID \o ICMP_SEQ [] c.tr = "icmp4reply" -> <<0, 0>> \o ICMP_ID \o ICMP_SEQ
                       [] c.tr = "icmp4raw" -> <<253, 7, 9, 8, 7, 6>> [] c.tr = "icmp4typed" -> <<11, 0, 0, 0, 0, 0>>
                       [] c.tr = "icmp6echo" -> <<128, 0>> \o ICMP_ID \o ICMP_SEQ [] c.tr = "icmp6reply" -> <<129, 0>> \o ICMP_ID \o ICMP_SEQ
                       [] c.tr = "icmp6raw" -> <<200, 3, 1, 2, 3, 4>> [] c.tr = "icmp6typed" -> <<2, 0, 0, 0, 5, 0>>
          IN IF <<f[1], f[2]>> \o SubSeq(f, 4, 7) # exp THEN {"icmp.fields"} ELSE {}
        ELSE {})
  \* transport checksums verify over pseudo header + header + payload (RFC 768 / 9293 / 792 / 4443)
  \cup (IF TrKind(c) # "none" /\ c.net # "arp" THEN
          LET seg == Sub(b, l4off, Len(b) - l4off)
              n == Len(seg)
              pseudo == IF TrKind(c) = "icmp4" THEN <<>>
                        ELSE IF IsV4(c) THEN C!Pseudo4(SRC4, DST4, TrProto(c), n)
                        ELSE C!Pseudo6(SRC6, DST6, TrProto(c), C!Len4(n))
          IN IF C!Fold1071(pseudo \o seg) # 65535 THEN {"checksum." \o TrKind(c)} ELSE {}
        ELSE {})

BuildMism(e) ==
  LET c == Cfg(e)
      outs == Outcomes(c)
      exp_size == Size(c) IN
  (IF e.size # exp_size THEN {"size.announced"} ELSE {})
  \* TCP option areas: accepted up to 40 bytes (the size grows by the area padded to a multiple of four), refused beyond with the size required
  \cup UNION {LET t == e.topt[i]  pad == ((t[2] + 3) \div 4) * 4 IN
              IF t[2] <= 40 THEN (IF t[3] # "ok" \/ t[4] # pad THEN {"tcp.options_rejected_or_size"} ELSE {})
              ELSE (IF t[3] # "err" \/ t[4] # t[2] THEN {"tcp.options_too_long_accepted_or_size"} ELSE {})
              : i \in 1..Len(e.topt)}
  \cup (IF e.write.k \notin outs THEN {"verdict:" \o e.write.k} ELSE {})
  \cup (IF e.vec.k # e.write.k \/ e.slice.k # e.write.k THEN {"sinks.verdicts_differ"} ELSE {})
  \* a header set with extension headers is linked by the builder itself (set_next_headers in each of the three sinks):
  \* a freshly linked chain serialises through every sink (C12)
  \cup (IF ExtLen(c) > 0 /\ "ok" \in outs /\ (e.write.k # "ok" \/ e.vec.k # "ok" \/ e.slice.k # "ok") THEN {"chain.linked_by_builder_not_serialisable"} ELSE {})
  \cup (IF e.write.k = "ok" THEN
          (IF e.total # exp_size THEN {"size.written"} ELSE {})
          \cup (IF e.vec.same # 1 THEN {"sinks.write_to_vec_differs"} ELSE {})
          \cup (IF e.slice.same # 1 \/ e.slice.ret # exp_size THEN {"sinks.write_to_slice_differs"} ELSE {})
          \cup (IF e.slice.canary # 1 THEN {"sinks.wrote_outside_slice"} ELSE {})
          \* a slice of exactly size(payload_len) bytes is enough
          \cup (IF e.exact # <<"ok", exp_size, 1, 1>> THEN {"sinks.exact_size_slice"} ELSE {})
          \* every slice that is too short (0, 1, inside each part, one byte short): a space error that states the length
          \* really required, nothing written outside, whatever was written is a prefix of the encoding
          \cup UNION {LET s == e.shorts[i] IN
                      (IF s[2] # "Space" THEN {"sinks.short_slice_accepted:" \o s[2]} ELSE IF s[3] # exp_size THEN {"sinks.space_error"} ELSE {})
                      \cup (IF s[4] # 1 THEN {"sinks.wrote_outside_slice"} ELSE {}) \cup (IF s[5] # 1 THEN {"sinks.garbage_in_short_slice"} ELSE {})
                      : i \in 1..Len(e.shorts)}
          \* io::Write sink failing after k < size bytes: the fault surfaces as an Io error, nothing but a prefix was delivered
          \cup UNION {LET s == e.faults[i] IN
                      (IF s[2] # "io" THEN {"sinks.io_fault_lost:" \o s[2]} ELSE {}) \cup (IF s[4] # 1 THEN {"sinks.io_not_a_prefix"} ELSE {})
                      : i \in 1..Len(e.faults)}
          \cup (IF e.big = 1
                THEN \* 64 kB packets: length fields only (header bytes are logged)
                     LET ipoff == LinkLen(c) + VlanLen(c) IN
                     (IF IsV4(c) /\ U16(e.bytes, ipoff + 2) # e.total - ipoff THEN {"ipv4.total_len"} ELSE {})
                     \cup (IF ~IsV4(c) /\ c.net # "arp" /\ U16(e.bytes, ipoff + 4) # e.total - ipoff - 40 THEN {"ipv6.payload_length"} ELSE {})
                     \cup (IF c.tr = "udp" /\ U16(e.bytes, ipoff + NetLen(c) + ExtLen(c) + 4) # 8 + c.plen THEN {"udp.length"} ELSE {})
                ELSE IF c.tr = "raw" /\ c.last = 0 THEN {}       \* protocol 0 behind IPv6 would be read as hop-by-hop: sizes only
                ELSE LET b == e.bytes
                         entry == IF c.link = "eth" THEN "eth" ELSE IF c.link = "sll" THEN "sll" ELSE "ip"
                         r == Final(b, "strict", "slice", entry, -1, "all") IN
                     IF r.v # "ok" THEN {"reparse.rejected"}
                     ELSE IF [i \in 1..Len(r.layers) |-> r.layers[i].k] # Kinds(c) THEN {"reparse.layers"}
                     ELSE (IF c.net # "arp" /\ (r.pay.len # c.plen \/ Sub(b, r.pay.off, r.pay.len) # e.payload) THEN {"payload"} ELSE {})
                          \cup FieldMism(c, e, r, b))
        ELSE {})
  \cup (IF e.write.k = "PayloadLen" /\ c.plen < 1073741823 /\ ~(e.write.max < e.write.actual) THEN {"error.payload_len_fields"} ELSE {})

VARIABLES l, bad
TraceInit == l = 1 /\ bad = {}
TraceNext == /\ l <= Len(Rec)
             /\ LET e == Rec[l]
                    ms == IF e.ev = "build" THEN BuildMism(e) ELSE {"panic"}
                IN bad' = bad \cup {<<e.id, t>> : t \in ms}
             /\ l' = l + 1
TraceSpec == TraceInit /\ [][TraceNext]_<<l, bad>>
TraceAccepted == TLCGet("stats").diameter - 1 = Len(Rec)
Report == (l = Len(Rec) + 1) => PrintT(<<"TRACE-RESULT", ToJson([events |-> Len(Rec), bad |-> bad, known |-> {}])>>)
====
