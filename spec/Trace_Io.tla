---- MODULE Trace_Io ----
(* Trace validation of I/O faults and of reader-vs-slice agreement.  One event = one header type + one byte
   string: the slice decode, a read under a reader that fails after k bytes for EVERY k, a write of the decoded
   value under a writer that fails after k bytes for EVERY k, write_to_slice into EVERY slice length (with
   canaries), read_limited under EVERY limit.  Expected outcomes come from Wire.tla (header length, content
   rules) and from the IoFault machines (prefix / fault surfaces / never overpulls). *)
EXTENDS Decoder, IoFault, Json, IOUtils

CONSTANT KnownDev
Rec == ndJsonDeserialize(IOEnv.TRACE)

\* content rules of a header kind, visible in the first bytes (same canonical names as in Decoder.tla)
CF(k, b) ==
  IF Len(b) = 0 THEN {} ELSE
  CASE k = "ipv4" -> (IF Hi4(B(b, 0)) # 4 THEN {"con:ipv4.version"} ELSE {}) \cup (IF Lo4(B(b, 0)) < 5 THEN {"con:ipv4.ihl"} ELSE {})
    [] k = "ipv6" -> (IF Hi4(B(b, 0)) # 6 THEN {"con:ipv6.version"} ELSE {})
    [] k = "macsec" -> (IF B(b, 0) >= 128 THEN {"con:macsec.version"} ELSE {})
                       \cup (IF Len(b) >= 2 /\ MsUnmod(B(b, 0)) /\ Bits(B(b, 1), 0, 6) = 1 THEN {"con:macsec.shortlen"} ELSE {})
    [] k = "tcp" -> (IF Len(b) >= 13 /\ Hi4(B(b, 12)) < 5 THEN {"con:tcp.doff"} ELSE {})
    [] k = "sll" -> (IF Len(b) >= 2 /\ U16(b, 0) > 7 THEN {"con:sll.ptype"} ELSE {}) \cup (IF Len(b) >= 4 /\ U16(b, 2) \notin SllHwOk THEN {"con:sll.hw"} ELSE {})
    [] k = "auth" -> (IF Len(b) >= 2 /\ B(b, 1) = 0 THEN {"con:auth.zero"} ELSE {})
    [] OTHER -> {}

\* the typed ICMPv4 header of a timestamp message has 20 bytes (RFC 792)
HL(k, b) == IF k = "icmp4" /\ Len(b) >= 2 /\ Icmp4Ts(b, 0) THEN 20 ELSE HdrLen(k, b)

\* ... and Icmpv4Header::from_slice demands that a timestamp message ends with the header (rule on the total slice length):
\* on longer slices reader and slice decoder are not comparable (C06 compares them "on slices that end with the header")
TsLong(k, b) == k = "icmp4" /\ Len(b) > 20 /\ Icmp4Ts(b, 0)
Fix(k) == FixLenOf(k)
\* full header length once the fixed part is there (content faults make it meaningless)
FullLen(k, b) == IF Len(b) >= Fix(k) /\ CF(k, b) = {} THEN HL(k, b) ELSE Fix(k)
SliceOk(k, b) == Len(b) >= Fix(k) /\ CF(k, b) = {} /\ Len(b) >= HL(k, b)
Canon(k, b) == Enc(k, Dec(k, Take(b, HdrLen(k, b))))      \* the value's encoding (reserved bits cleared)

\* IP header + extension headers ("iph", multi-part): verdict and total header length from the reference decoder (struct family)
IphRun(b) == Final(b, "strict", "struct", "ip", -1, "ip")
IphSliceMism(e) == LET r == IphRun(e.bytes) IN
  IF r.v = "ok" THEN (IF e.slice.k # "ok" THEN {"slice.rejected:" \o e.slice.k} ELSE IF e.slice.used # r.pay.off THEN {"slice.consumed"} ELSE {})
  ELSE (IF e.slice.k = "ok" THEN {"slice.accepted"} ELSE {})
\* C06 compares reader and slice decoder on "a slice that holds the announced packet": not comparable are slices shorter than
\* the announced total / payload length (the reader cannot see how much data follows the headers) and IPv6 headers with payload
\* length 0 followed by data (slices: "up to the end of the enclosing data", a reader has no enclosing data)
IphComparable(b) ==
  IF Len(b) < 6 THEN TRUE
  ELSE IF Hi4(B(b, 0)) = 4 THEN Len(b) >= U16(b, 2)
  ELSE IF Hi4(B(b, 0)) = 6 THEN Len(b) >= 40 + U16(b, 4) /\ ~(U16(b, 4) = 0 /\ Len(b) > 40)
  ELSE TRUE
IphReadMism(e) == LET r == IphRun(e.bytes) IN
  IF ~IphComparable(e.bytes) THEN UNION {LET x == e.reads[i] IN IF x[2] = "ok" /\ x[3] > x[1] THEN {"read.consumed_more_than_delivered"} ELSE {} : i \in 1..Len(e.reads)} ELSE
  UNION {LET x == e.reads[i]  okHere == r.v = "ok" /\ x[1] >= r.pay.off IN
         IF okHere THEN (IF x[2] # "ok" THEN {"read.rejected_what_slice_accepts:" \o x[2]}
                         ELSE (IF x[3] # r.pay.off THEN {"read.consumed"} ELSE {}) \cup (IF x[4] # 1 THEN {"read.value_differs_from_slice"} ELSE {}))
         ELSE (IF x[2] = "ok" THEN (IF r.v = "ok" THEN {"read.success_despite_fault"} ELSE {"read.accepted_what_slice_rejects"}) ELSE {})
         : i \in 1..Len(e.reads)}

\* extension header chains behind a first ip number e.start ("ext6": Ipv6Extensions, "ext4": Ipv4Extensions = optional AH):
\* verdict, bytes consumed and the ip number behind the chain from the reference decoder (struct family, Decoder!Exts / Auth)
ExtRun(e) ==
  LET b == e.bytes  st == e.start IN
  IF e.type = "ext6" THEN Exts(b, 0, Len(b), st, TRUE, FALSE, <<>>, {}, "struct", {"Slice"})
  ELSE IF st = IP_AUTH THEN LET r == Auth(b, 0, Len(b), {"Slice"}) IN
                            IF r[1] = "err" THEN [faults |-> r[2], end |-> 0, ipn |-> st] ELSE [faults |-> {}, end |-> r[2], ipn |-> r[3]]
  ELSE [faults |-> {}, end |-> 0, ipn |-> st]
ExtSliceMism(e) == LET r == ExtRun(e) IN
  IF r.faults = {} THEN (IF e.slice.k # "ok" THEN {"slice.rejected:" \o e.slice.k}
                         ELSE (IF e.slice.used # r.end THEN {"slice.consumed"} ELSE {})
                              \cup (IF e.slice.re[Len(e.slice.re)] # r.ipn THEN {"slice.next_header"} ELSE {})
                              \cup (IF Len(e.slice.re) - 1 # r.end THEN {"slice.value"} ELSE {}))
  ELSE (IF e.slice.k = "ok" THEN {"slice.accepted"} ELSE {})
ExtReadMism(e) == LET r == ExtRun(e) IN
  UNION {LET x == e.reads[i]  okHere == r.faults = {} /\ x[1] >= r.end IN
         IF okHere THEN (IF x[2] # "ok" THEN {"read.rejected_what_slice_accepts:" \o x[2]}
                         ELSE (IF x[3] # r.end THEN {"read.consumed"} ELSE {}) \cup (IF x[4] # 1 THEN {"read.value_differs_from_slice"} ELSE {}))
         ELSE (IF x[2] = "ok" THEN (IF r.faults = {} THEN {"read.success_despite_fault"} ELSE {"read.accepted_what_slice_rejects"}) ELSE {})
         : i \in 1..Len(e.reads)}
\* Ipv6Header::skip_* helpers: every header of the general format ((len + 1) * 8 bytes; fragment 8; AH (len + 2) * 4) is stepped over
S6 == {0, 43, 44, 51, 60, 135, 139, 140}
SkipOneLen(nh, b, p) == IF nh = 44 THEN 8 ELSE IF nh = 51 THEN (B(b, p + 1) + 2) * 4 ELSE (B(b, p + 1) + 1) * 8
RECURSIVE SkipAll(_, _, _)
SkipAll(b, p, nh) ==
  IF nh \notin S6 THEN <<"ok", nh, p>>
  ELSE LET a == Len(b) - p IN
       IF a < 2 THEN <<"err", 2, a, p>>
       ELSE LET hl == SkipOneLen(nh, b, p) IN IF a < hl THEN <<"err", hl, a, p>> ELSE SkipAll(b, p + hl, B(b, p))
SkipOne(b, nh) ==
  IF nh \notin S6 THEN <<"ok", nh, 0>>
  ELSE IF Len(b) < 2 THEN <<"err", 2, Len(b), 0>>
  ELSE LET hl == SkipOneLen(nh, b, 0) IN IF Len(b) < hl THEN <<"err", hl, Len(b), 0>> ELSE <<"ok", B(b, 0), hl>>
SkipCmp(tag, x, got, rd) ==
  (IF got # (IF x[1] = "ok" THEN <<"ok", x[2], x[3], x[3], 1>> ELSE <<"err", x[2], x[3], x[4], 1>>) THEN {"skip." \o tag \o ".slice"} ELSE {})
  \cup UNION {LET r == rd[i]  okHere == x[1] = "ok" /\ r[1] >= x[3] IN
              IF okHere THEN (IF r # <<r[1], "ok", x[2], x[3]>> THEN {"skip." \o tag \o ".read.differs_from_slice"} ELSE {})
              ELSE (IF r[2] = "ok" THEN {"skip." \o tag \o ".read.success_despite_fault"} ELSE {})
              : i \in 1..Len(rd)}
SkipMism(e) ==
  IF e.skips.has # 1 THEN {} ELSE
  (IF (e.skips.skippable = 1) # (e.start \in S6) THEN {"skip.is_skippable"} ELSE {})
  \cup SkipCmp("all", SkipAll(e.bytes, 0, e.start), e.skips.all, e.skips.all_r)
  \cup SkipCmp("one", SkipOne(e.bytes, e.start), e.skips.one, e.skips.one_r)

SliceMism(e) ==
  LET k == e.type  b == e.bytes IN
  IF k = "iph" THEN IphSliceMism(e) ELSE
  IF k \in {"ext4", "ext6"} THEN ExtSliceMism(e) ELSE
  IF TsLong(k, b) THEN {} ELSE
  IF SliceOk(k, b)
  THEN (IF e.slice.k # "ok" THEN {"slice.rejected:" \o e.slice.k}
        ELSE (IF e.slice.used # HL(k, b) THEN {"slice.consumed"} ELSE {}) \* (typed ICMP values normalise unused header bytes: their field fidelity belongs to Ctl.tla / C17)
             \cup (IF k \notin {"icmp4", "icmp6"} /\ e.slice.re # Canon(k, b) THEN {"slice.value"} ELSE {}))
  ELSE (IF e.slice.k = "ok" THEN {"slice.accepted"} ELSE IF e.slice.k \notin (CF(k, b) \cup {"len"}) THEN {"slice.reason:" \o e.slice.k} ELSE {})

\* <<layer, required, available, source, offset>> of two length errors about the same bytes: same layer, same bytes available, same source,
\* same offset; "required" is A number of bytes the layer really needs (C07): the minimal header, the first two bytes, or the length the
\* header announces once its length byte was seen - the two decoders may name different ones, on the same side of `available`
LenReportDiffers(s, r) == s[1] # r[1] \/ s[3] # r[3] \/ s[4] # r[4] \/ s[5] # r[5] \/ (r[2] > r[3]) # (s[2] > s[3])

ReadMism(e) ==
  LET k == e.type  b == e.bytes IN
  \* a length error of the reader (a length field that ends inside a header) carries the same report as the slice decoder's on the same bytes
  IF k = "iph" THEN IphReadMism(e) \cup (IF IphComparable(e.bytes) /\ Len(e.slen) = 5 /\ Len(e.rlen) = 5 /\ LenReportDiffers(e.slen, e.rlen) THEN {"read.len_error_fields"} ELSE {}) ELSE
  IF k \in {"ext4", "ext6"} THEN ExtReadMism(e) ELSE
  IF TsLong(k, b) THEN UNION {LET r == e.reads[i] IN IF r[1] >= 20 THEN (IF r[2] # "ok" \/ r[3] # 20 THEN {"read.timestamp"} ELSE {})
                                                     ELSE (IF r[2] = "ok" THEN {"read.success_despite_fault"} ELSE {}) : i \in 1..Len(e.reads)} ELSE
  UNION {LET r == e.reads[i]  n == r[1]  kind == r[2]
             okHere == SliceOk(k, b) /\ n >= HL(k, b) IN
         IF okHere
         THEN (IF kind # "ok" THEN {"read.rejected_what_slice_accepts:" \o kind}
               ELSE (IF r[3] # HL(k, b) THEN {"read.consumed"} ELSE {}) \cup (IF r[4] # 1 THEN {"read.value_differs_from_slice"} ELSE {}))
         ELSE (IF kind = "ok" THEN (IF SliceOk(k, b) THEN {"read.success_despite_fault"} ELSE {"read.accepted_what_slice_rejects"})
               \* the same reason as the slice decoder (content rule visible in the bytes delivered) or the I/O error itself
               ELSE IF kind \notin (CF(k, Take(b, n)) \cup (IF n < FullLen(k, b) \/ Len(b) < FullLen(k, b) THEN {"io"} ELSE {}))
                    THEN {"read.reason:" \o kind} ELSE {})
         : i \in 1..Len(e.reads)}

WriteMism(e) ==
  IF e.slice.k # "ok" THEN {} ELSE
  LET T == IF e.type \in {"ext4", "ext6"} THEN Len(e.slice.re) - 1 ELSE Len(e.slice.re) IN
  UNION {LET w == e.writes[i]  cap == w[1] IN
         (IF (w[2] = 1) # (cap >= T) THEN {IF w[2] = 1 THEN "write.success_despite_fault" ELSE "write.failed_without_fault"} ELSE {})
         \cup (IF w[3] > cap \/ w[3] > T \/ (w[2] = 1 /\ w[3] # T) THEN {"write.byte_count"} ELSE {})
         \cup (IF w[4] # 1 THEN {"write.not_a_prefix"} ELSE {})
         : i \in 1..Len(e.writes)}
  \cup UNION {LET s == e.slices[i]  n == s[1] IN
         (IF (s[2] = 1) # (n >= T) THEN {IF s[2] = 1 THEN "wslice.success_without_space" ELSE "wslice.failed_with_space"} ELSE {})
         \cup (IF s[2] = 1 /\ (s[3] # T \/ s[6] # 1) THEN {"wslice.bytes"} ELSE {})
         \cup (IF s[2] = 0 /\ (s[3] # T \/ s[4] # n) THEN {"wslice.error_lengths"} ELSE {})
         \* the same error converted into the builder's BuildSliceWriteError::Space still names the required length
         \cup (IF s[2] = 0 /\ s[7] # T THEN {"wslice.converted_error_length"} ELSE {})
         \cup (IF s[5] # 1 THEN {"wslice.wrote_outside"} ELSE {}) \cup (IF s[2] = 0 /\ s[6] # 1 THEN {"wslice.garbage"} ELSE {})
         : i \in 1..Len(e.slices)}
  \cup UNION {LET m == e.limited[i]  lim == m[1] IN
         (IF m[3] > lim THEN {"limited.overpull"} ELSE {})
         \cup (IF lim >= T THEN (IF m[2] # "ok" THEN {"limited.rejected_within_limit"} ELSE IF m[3] # T \/ m[5] # 1 THEN {"limited.value"} ELSE {})
               ELSE (IF m[2] = "ok" THEN {"limited.success_beyond_limit"} ELSE {}))
         : i \in 1..Len(e.limited)}

\* the LimitedReader machine stepped along the recorded calls (IoFault!LReadExact / LStartLayer; the real reader is not sticky after a
\* budget error, so the error flag of the machine is cleared between calls): state after every call, error fields of a refusal
RECURSIVE LrSteps(_, _, _, _)
LrSteps(e, st, i, delivered) ==
  IF i > Len(e.obs) THEN {}
  ELSE LET n == e.calls[i][1]  o == e.obs[i]
           st2 == IF n < 0 THEN LStartLayer(st) ELSE LReadExact(st, n, e.avail - st.pos)
           kind == IF n < 0 THEN "ok" ELSE IF st.max - st.rd < n THEN "len" ELSE IF e.avail - st.pos < n THEN "io" ELSE "ok"
           d2 == IF kind = "ok" /\ n > 0 THEN delivered + n ELSE delivered
       IN (IF o[1] # kind THEN {"limited.call_verdict:" \o o[1] \o "/" \o kind} ELSE {})
          \cup (IF <<o[2], o[3], o[4] - 40>> # <<st2.rd, st2.max, st2.off>> THEN {"limited.state"} ELSE {})
          \cup (IF o[5] # d2 THEN {"limited.delivered"} ELSE {})
          \cup (IF kind = "len" /\ o[1] = "len" /\ <<o[6], o[7], o[8] - 40, o[9]>> # <<st.rd + n, st.max, st.off, 1>> THEN {"limited.error_fields"} ELSE {})
          \cup (IF st2.pos > e.max THEN {"SPEC.NeverOverpulls"} ELSE {})
          \cup (IF kind = "io" THEN {} ELSE LrSteps(e, [st2 EXCEPT !.err = FALSE], i + 1, d2))
LrMism(e) == LrSteps(e, L0(e.max), 1, 0) \cup (IF e.prefix # 1 THEN {"limited.bytes"} ELSE {})
                \cup (IF Len(e.obs) > 0 /\ e.obs[Len(e.obs)][1] = "panic" THEN {"panic:lr"} ELSE {})

VARIABLES l, bad
TraceInit == l = 1 /\ bad = {}
TraceNext == /\ l <= Len(Rec)
             /\ LET e == Rec[l]
                    ms == IF e.ev = "lr" THEN LrMism(e) ELSE IF e.ev = "io" THEN SliceMism(e) \cup ReadMism(e) \cup WriteMism(e) \cup SkipMism(e) ELSE {"panic:" \o e.type}
                IN bad' = bad \cup {<<e.id, t>> : t \in ms}
             /\ l' = l + 1
TraceSpec == TraceInit /\ [][TraceNext]_<<l, bad>>
TraceAccepted == TLCGet("stats").diameter - 1 = Len(Rec)
Report == (l = Len(Rec) + 1) => PrintT(<<"TRACE-RESULT", ToJson([events |-> Len(Rec), bad |-> bad, known |-> {}])>>)
====
