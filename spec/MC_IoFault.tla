---- MODULE MC_IoFault ----
(* TLC exploration of the writer and the LimitedReader machines for all chunk plans / call sequences within
   small bounds, all sink capacities and budgets. *)
EXTENDS IoFault

CONSTANTS MaxTotal, MaxCalls

\* ---- writer: every plan (sequence of chunk lengths) with total <= MaxTotal, every capacity
Plans == UNION {[1..n -> 1..MaxTotal] : n \in 1..3}
Total(p) == IF Len(p) = 1 THEN p[1] ELSE IF Len(p) = 2 THEN p[1] + p[2] ELSE p[1] + p[2] + p[3]
Enc(p) == [i \in 1..Total(p) |-> i]            \* the complete encoding: distinguishable bytes
ChunkOf(p, i) == LET start == IF i = 1 THEN 0 ELSE IF i = 2 THEN p[1] ELSE p[1] + p[2] IN SubSeq(Enc(p), start + 1, start + p[i])

VARIABLES mode, plan, cap, step, w, lr, calls, max0, avail0
vars == <<mode, plan, cap, step, w, lr, calls, max0, avail0>>

Init ==
  \/ /\ mode = "write" /\ plan \in {p \in Plans : Total(p) <= MaxTotal} /\ cap \in 0..(MaxTotal + 1) /\ step = 1 /\ w = W0
     /\ lr = L0(0) /\ calls = 0 /\ max0 = 0 /\ avail0 = 0
  \/ /\ mode = "limited" /\ plan = <<1>> /\ cap = 0 /\ step = 1 /\ w = W0
     /\ max0 \in 0..MaxTotal /\ avail0 \in 0..MaxTotal /\ lr = L0(max0) /\ calls = 0

Next ==
  \/ /\ mode = "write" /\ step <= Len(plan)
     /\ w' \in WriteAll(w, ChunkOf(plan, step), cap) /\ step' = step + 1
     /\ UNCHANGED <<mode, plan, cap, lr, calls, max0, avail0>>
  \/ /\ mode = "limited" /\ calls < MaxCalls
     /\ \/ \E n \in 0..MaxTotal : lr' = LReadExact(lr, n, avail0 - lr.pos)
        \/ lr' = LStartLayer(lr)
     /\ calls' = calls + 1 /\ UNCHANGED <<mode, plan, cap, step, w, max0, avail0>>
Spec == Init /\ [][Next]_vars

\* ---- C16 ----
PrefixOnly == mode = "write" => IsPrefix(w.got, Enc(plan)) /\ Len(w.got) <= cap
FaultSurfaces == (mode = "write" /\ step > Len(plan)) => (w.failed <=> cap < Total(plan))
NoFalseSuccess == (mode = "write" /\ step > Len(plan) /\ ~w.failed) => w.got = Enc(plan)
\* a length-limited reader never pulls more bytes from the underlying reader than its limit allows
NeverOverpulls == mode = "limited" => lr.pos <= max0 /\ lr.pos <= avail0 /\ lr.off + lr.rd = lr.pos - (IF lr.err THEN lr.pos - lr.off - lr.rd ELSE 0)
BudgetConserved == (mode = "limited" /\ ~lr.err) => lr.off + lr.max = max0
====
