---- MODULE Fields ----
(* Length-taking setters / constructors (C14) and bounded integer newtypes (C15) as one table-driven machine:
   Set(api, ctx, v) on a header either stores v exactly (the encoded field decodes to v) or rejects it with an
   error carrying the offending and the allowed value, leaving the header unchanged.  The limits are derived here
   from the wire field widths (16 bit total length / payload length / UDP length, 6 bit short length, 8 bit length
   units of AH / extension headers / option areas), not copied from the crate's constants. *)
EXTENDS Integers, Sequences, FiniteSets, TLC

U16MAX == 65535
Huge == 1073741823          \* stands for "a value far beyond every limit" (the harness passes usize::MAX resp. the maximum of the argument type)

Bits(t) == CASE t = "VlanId" -> 12 [] t = "VlanPcp" -> 3 [] t = "IpDscp" -> 6 [] t = "IpEcn" -> 2 [] t = "IpFragOffset" -> 13
             [] t = "Ipv6FlowLabel" -> 20 [] t = "MacsecAn" -> 2 [] t = "MacsecShortLen" -> 6 [] t = "Qrv" -> 3
NewTypes == {"VlanId", "VlanPcp", "IpDscp", "IpEcn", "IpFragOffset", "Ipv6FlowLabel", "MacsecAn", "MacsecShortLen", "Qrv"}
\* width of the argument type of try_new (values above cannot even be passed)
ArgMax(t) == IF t \in {"VlanId", "IpFragOffset"} THEN 65535 ELSE IF t = "Ipv6FlowLabel" THEN Huge ELSE 255

\* expected outcome: [ok, enc, errs]; enc = the value the encoded field must decode to (-1: not applicable);
\* errs = admissible <<kind, actual, max>> triples (max = -1 where the error type has no such field)
Ok(enc) == [ok |-> TRUE, enc |-> enc, errs |-> {}]
Rej(errs) == [ok |-> FALSE, enc |-> -1, errs |-> errs]
TooBig(v, max) == Rej({<<"ValueTooBig", v, max>>})

Expect(api, ctx, v) ==
  CASE api \in NewTypes -> (IF v < 2 ^ Bits(api) THEN Ok(v) ELSE TooBig(v, 2 ^ Bits(api) - 1))
    \* ctx[1] = length of the IPv4 options
    [] api = "ipv4.set_payload_len" -> LET L == U16MAX - 20 - ctx[1] IN IF v <= L THEN Ok(20 + ctx[1] + v) ELSE TooBig(v, L)
    [] api = "ipv6.set_payload_length" -> IF v <= U16MAX THEN Ok(v) ELSE TooBig(v, U16MAX)
    \* ctx = <<options length, length of the extension headers>>: the caller's value or the value incl. extensions may be reported
    [] api = "iph4.set_payload_len" -> LET L == U16MAX - 20 - ctx[1] - ctx[2] IN
                                        IF v <= L THEN Ok(20 + ctx[1] + ctx[2] + v) ELSE Rej({<<"ValueTooBig", v, L>>, <<"ValueTooBig", v + ctx[2], L + ctx[2]>>})
    [] api = "iph6.set_payload_len" -> LET L == U16MAX - ctx[1] IN
                                        IF v <= L THEN Ok(ctx[1] + v) ELSE Rej({<<"ValueTooBig", v, L>>, <<"ValueTooBig", v + ctx[1], U16MAX>>})
    [] api \in {"udp.without_ipv4_checksum", "udp.with_ipv4_checksum", "udp.with_ipv6_checksum"} -> IF v <= U16MAX - 8 THEN Ok(v + 8) ELSE TooBig(v, U16MAX - 8)
    [] api = "udp.calc_checksum_ipv4" -> IF v <= U16MAX - 8 THEN Ok(-1) ELSE TooBig(v, U16MAX - 8)
    [] api \in {"tcp.calc_checksum_ipv4", "tcp.hslice.calc_checksum_ipv4"} -> LET L == U16MAX - 20 - ctx[1] IN IF v <= L THEN Ok(-1) ELSE TooBig(v, L)
    \* TcpSlice holds header and payload in one slice: the error names the complete TCP length
    [] api = "tcp.slice.calc_checksum_ipv4" -> LET L == U16MAX - 20 - ctx[1] IN IF v <= L THEN Ok(-1) ELSE TooBig(v + 20 + ctx[1], U16MAX)
    \* MACsec: ctx[1] = 1 for an unmodified payload (the 2 ether type bytes count); too long => documented "unknown" (0)
    [] api = "macsec.set_payload_len" -> LET sl == IF ctx[1] = 1 THEN v + 2 ELSE v IN Ok(IF sl <= 63 THEN sl ELSE 0)
    [] api \in {"auth.new", "auth.set_raw_icv"} ->
         IF v <= 1016 /\ v % 4 = 0 THEN Ok(v)
         ELSE Rej((IF v > 1016 THEN {<<"TooBig", v, -1>>} ELSE {}) \cup (IF v % 4 # 0 THEN {<<"Unaligned", v, -1>>} ELSE {}))
    [] api \in {"rawext.new_raw", "rawext.set_payload"} ->
         IF v >= 6 /\ v <= 2046 /\ (v + 2) % 8 = 0 THEN Ok(v)
         ELSE Rej((IF v < 6 THEN {<<"TooSmall", v, -1>>} ELSE {}) \cup (IF v > 2046 THEN {<<"TooBig", v, -1>>} ELSE {})
                  \cup (IF (v + 2) % 8 # 0 THEN {<<"Unaligned", v, -1>>} ELSE {}))
    [] api \in {"ipv4.set_options", "ipv4options.try_from"} -> IF v <= 40 /\ v % 4 = 0 THEN Ok(v) ELSE Rej({<<"BadOptionsLen", v, -1>>})
    [] api \in {"arp.new.hw", "arp.new.proto"} -> IF v <= 255 THEN Ok(v) ELSE Rej({<<"ArpAddrTooBig", v, -1>>})
    \* setters of an existing ARP packet: v = sender address length, ctx[1] = target length - sender length
    [] api \in {"arp.set_hw_addrs", "arp.set_protocol_addrs"} ->
         IF ctx[1] # 0 THEN Rej({<<"LenNonMatching", v, v + ctx[1]>>}) ELSE IF v <= 255 THEN Ok(v) ELSE Rej({<<"LenTooBig", v, -1>>})
    \* MACsec short length from a payload length: the length itself if the 6 bit field can hold it, else the documented "unknown" (0)
    [] api = "macsec.short_len.from_len" -> Ok(IF v <= 63 THEN v ELSE 0)
    \* traffic class octet = DSCP (upper 6 bits) and ECN (lower 2 bits); ctx[1] = traffic class before; the setter changes only its own bits
    [] api = "ipv6.set_dscp" -> Ok(v * 4 + (ctx[1] % 4))
    [] api = "ipv6.set_ecn" -> Ok((ctx[1] \div 4) * 4 + v)
    \* IGMPv3 query, byte 8 = Resv (4 bits) | S (1 bit) | QRV (3 bits); ctx[1] = the byte before; each setter changes only its own bits
    [] api = "igmp.set_qrv" -> Ok((ctx[1] \div 8) * 8 + v)
    [] api = "igmp.set_s_flag" -> Ok((ctx[1] \div 16) * 16 + v * 8 + (ctx[1] % 8))
    [] api = "igmp.set_flags" -> Ok((v % 16) * 16 + (ctx[1] % 16))
    \* RFC 3376 4.1.1 max resp code: below 128 the value itself, else (mant | 0x10) << (exp + 3)
    [] api = "igmp.max_resp_10th" -> Ok(IF v < 128 THEN v ELSE ((v % 16) + 16) * 2 ^ (((v \div 16) % 8) + 3))
    \* IPv4 payload length derived from the total length v and the header length (ctx[1] = options length)
    [] api = "ipv4.payload_len" -> IF v >= 20 + ctx[1] THEN Ok(v - 20 - ctx[1]) ELSE Rej({<<"LenError", 20 + ctx[1], v>>})

Around(L) == {x \in {L - 2, L - 1, L, L + 1, L + 2} : x >= 0}
Probe(L) == {0, 1} \cup Around(L) \cup Around(65535) \cup {Huge}
====
