---- MODULE Recipes ----
(* Systematic input space of the decoder machine (spec -> impl direction).

   A recipe describes a stacking  link x link extensions x net x transport x payload
   together with ONE deliberate deviation per length field (below / at / above the true
   size), content faults (versions, IHL, data offset, packet type ...), trailing bytes
   behind the outermost length field, and a truncation point.  The bytes are computed
   here, in TLA+, so the specification - not the harness - decides what the inputs are.

   Recipes are records; every field has a default and the enumerated sets vary one or
   two dimensions at a time ("star design"), every truncation point of each. *)
EXTENDS Wire

Pat(n, seed) == [i \in 1..n |-> (seed + 7 * i) % 251]          \* distinguishable filler bytes

\* ---- transport ---------------------------------------------------------------
\* t.k \in {"udp","tcp","icmp4","icmp6","raw"}; t.v = variant; returns <<ip number, bytes>>
EncTransport(t, plen) ==
  LET pl == Pat(plen, 40) IN
  CASE t.k = "udp" ->
         LET tl == 8 + plen
             l == CASE t.v = "ok" -> tl [] t.v = "zero" -> 0 [] t.v = "seven" -> 7 [] t.v = "one" -> 1
                    [] t.v = "minus" -> Max(tl - 1, 0) [] t.v = "plus" -> tl + 1 [] t.v = "hdr" -> 8
         IN <<IP_UDP, <<4, 210, 0, 53>> \o Be16(l) \o <<171, 205>> \o pl>>
    [] t.k = "tcp" ->
         LET doff == CASE t.v = "ok" -> 5 [] t.v = "opt" -> 7 [] t.v = "four" -> 4 [] t.v = "zero" -> 0 [] t.v = "max" -> 15 [] t.v = "maxcut" -> 15
             opts == CASE t.v = "opt" -> <<2, 4, 5, 180, 1, 3, 3, 7>> [] t.v = "max" -> Rep(40, 1) [] OTHER -> <<>>
         IN <<IP_TCP, <<0, 80, 195, 80, 1, 2, 3, 4, 5, 6, 7, 8, doff * 16 + 1, 18, 16, 0, 190, 239, 0, 9>> \o opts \o pl>>
    [] t.k = "icmp4" ->
         LET hd == CASE t.v = "echo" -> <<8, 0>> [] t.v = "ts" -> <<13, 0>> [] t.v = "tsr" -> <<14, 0>>
                     [] t.v = "tscode" -> <<13, 1>> [] t.v = "unk" -> <<99, 3>>
         IN <<IP_ICMP, hd \o <<18, 52, 0, 1, 0, 2>> \o pl>>
    [] t.k = "icmp6" ->
         IF t.v = "echo" THEN <<IP_ICMP6, <<128, 0, 18, 52, 0, 1, 0, 2>> \o pl>>
         ELSE IF t.v = "ns" THEN <<IP_ICMP6, <<135, 0, 18, 52, 0, 1, 0, 2>> \o pl>>
         \* router solicitation followed by neighbour discovery options: ok (1 unit), zero units, 32 units (256 bytes announced), 255 units
         ELSE <<IP_ICMP6, <<133, 0, 18, 52, 0, 0, 0, 0>> \o
                          (CASE t.v = "rs1" -> <<1, 1, 1, 2, 3, 4, 5, 6>> [] t.v = "rs0" -> <<1, 0, 1, 2, 3, 4, 5, 6>>
                             [] t.v = "rs32" -> <<4, 32>> \o Pat(14, 3) [] t.v = "rs255" -> <<5, 255, 0, 0, 0, 0, 5, 220>>) \o pl>>
    [] t.k = "raw" -> <<t.n, pl>>                                   \* t.n = ip number, nothing the crate decodes

\* ---- authentication header / IPv6 extension headers ----------------------------
\* x \in {"ok", "zero" (payload len 0), "cut" (truncated to 10 bytes), "big" (announces 4 bytes more)}
RcAuth(next, x) ==
  LET full == <<next, 2, 0, 0, 0, 0, 1, 0, 0, 0, 0, 9, 170, 187, 204, 221>> IN
  CASE x = "ok" -> full [] x = "zero" -> [full EXCEPT ![2] = 0] [] x = "cut" -> SubSeq(full, 1, 10) [] x = "big" -> [full EXCEPT ![2] = 3]

\* e = <<kind, variant>>, kind \in {0, 60, 43, 44, 51, other}; variant \in {"ok","long" (16 bytes),"cut","big","frag","zero","rsv1","rsv255"}
EncExt(e, next) ==
  LET k == e[1]  x == e[2] IN
  IF k = IP_AUTH THEN RcAuth(next, IF x \in {"ok", "zero", "cut", "big"} THEN x ELSE "ok")
  ELSE IF k = IP_FRAG THEN
       \* second octet: reserved ("initialized to zero for transmission; ignored on reception", RFC 8200 4.5): it is NOT a length
       LET h == <<next, IF x = "rsv1" THEN 1 ELSE IF x = "rsv255" THEN 255 ELSE 0, 0, IF x = "frag" THEN 9 ELSE IF x = "more" THEN 1 ELSE 6, 0, 0, 0, 7>> IN
       IF x = "cut" THEN SubSeq(h, 1, 5) ELSE h
  \* "jumbo": hop-by-hop header carrying an RFC 2675 jumbo payload option announcing 69 999 bytes (the crate documents that it does not
  \* interpret it: a zero payload length means "up to the end of the slice" for every decoder alike)
  ELSE LET h == IF x = "long" THEN <<next, 1>> \o Rep(14, 0) ELSE IF x = "big" THEN <<next, 1>> \o Rep(6, 0)
                ELSE IF x = "jumbo" THEN <<next, 0, 194, 4, 0, 1, 17, 111>> ELSE <<next, 0>> \o Rep(6, 0) IN
       IF x = "cut" THEN SubSeq(h, 1, 5) ELSE h

\* chain = sequence of <<kind, variant>>; returns <<first next-header, bytes>>
RECURSIVE EncChain(_, _, _)
EncChain(chain, proto, inner) ==
  IF chain = <<>> THEN <<proto, inner>>
  ELSE LET rest == EncChain(Tail(chain), proto, inner) IN
       <<Head(chain)[1], EncExt(Head(chain), rest[1]) \o rest[2]>>

\* ---- network -------------------------------------------------------------------
\* n.k \in {"ipv4","ipv6","arp","other","none"}
EncNet(n, tr) ==          \* tr = <<ip number, transport bytes>>; returns <<ether type, bytes>>
  CASE n.k = "ipv4" ->
         LET au == IF n.auth = "none" THEN <<tr[1], tr[2]>> ELSE <<IP_AUTH, RcAuth(tr[1], n.auth) \o tr[2]>>
             ihl == CASE n.ihl = "ok" -> 5 [] n.ihl = "opt" -> 6 [] n.ihl = "four" -> 4 [] n.ihl = "zero" -> 0 [] n.ihl = "max" -> 15
             hl == IF ihl >= 5 THEN 4 * ihl ELSE 20
             ttl == hl + Len(au[2])
             tl == CASE n.tl = "ok" -> ttl [] n.tl = "minus" -> ttl - 1 [] n.tl = "plus" -> ttl + 1 [] n.tl = "max" -> 65535
                     [] n.tl = "hdrminus" -> hl - 1 [] n.tl = "hdr" -> hl [] n.tl = "minus3" -> Max(ttl - 3, 0) [] n.tl = "twenty" -> 20
             fr == CASE n.frag = "no" -> <<64, 0>> [] n.frag = "mf" -> <<32, 0>> [] n.frag = "off" -> <<0, 5>> [] n.frag = "rsv" -> <<192, 0>>
             ver == CASE n.ver = "ok" -> 4 [] n.ver = "six" -> 6 [] n.ver = "five" -> 5 [] n.ver = "zero" -> 0
         IN <<ET_IPV4, <<ver * 16 + ihl, 46>> \o Be16(tl) \o <<171, 205>> \o fr \o <<64, au[1], 18, 52, 10, 0, 0, 1, 10, 0, 0, 2>>
                       \o Rep(hl - 20, 1) \o au[2] \o Rep(n.trail, 238)>>
    [] n.k = "ipv6" ->
         LET ch == EncChain(n.chain, tr[1], tr[2])
             tpl == Len(ch[2])
             pl == CASE n.pl = "ok" -> tpl [] n.pl = "zero" -> 0 [] n.pl = "minus" -> Max(tpl - 1, 0) [] n.pl = "plus" -> tpl + 1
                     [] n.pl = "minus9" -> Max(tpl - 9, 0)
                    \* the largest values of the 16 bit field: 40 + payload length no longer fits into 16 bits
                    [] n.pl = "max" -> 65535 [] n.pl = "wrap" -> 65496 [] n.pl = "wrapplus" -> 65497 + tpl
             ver == CASE n.ver = "ok" -> 6 [] n.ver = "four" -> 4 [] n.ver = "five" -> 5 [] n.ver = "zero" -> 0
         IN <<ET_IPV6, <<ver * 16 + 10, 188, 205, 239>> \o Be16(pl) \o <<ch[1], 64>> \o Pat(16, 1) \o Pat(16, 101) \o ch[2] \o Rep(n.trail, 238)>>
    [] n.k = "arp" ->
         LET hw == n.hw  pr == n.pr IN
         <<ET_ARP, <<0, 1, 8, 0, hw, pr, 0, 1>> \o Pat(2 * hw + 2 * pr, 9) \o Rep(n.trail, 238)>>
    [] n.k = "other" -> <<n.et, Pat(5, 77)>>
    [] n.k = "none" -> <<n.et, <<>>>>

\* ---- link extensions -------------------------------------------------------------
\* x \in {"v8100","v88a8","v9100","m0" (unmodified, no SCI, short length 0), "msc" (SCI, short length true),
\*        "mshort" (announces one byte less), "mlong" (one byte more), "mmod" (modified), "menc", "mver", "msl1", "msl2"}
EncLinkExt(x, et, inner) ==        \* returns <<ether type of this extension, bytes>>
  IF x \in {"v8100", "v88a8", "v9100"} THEN
     <<CASE x = "v8100" -> 33024 [] x = "v88a8" -> 34984 [] x = "v9100" -> 37120, <<171, 205>> \o Be16(et) \o inner>>
  ELSE LET unmod == x \notin {"mmod", "menc"}
           sc == x = "msc"
           tsl == Len(inner) + (IF unmod THEN 2 ELSE 0)
           sl0 == CASE x = "m0" -> 0 [] x = "mver" -> 0 [] x = "msl1" -> 1 [] x = "msl2" -> 2
                    [] x = "mshort" -> Max(tsl - 1, 0) [] x = "mlong" -> tsl + 1 [] OTHER -> tsl
           sl == IF sl0 > 63 THEN 0 ELSE sl0
           tci == (IF x = "mver" THEN 128 ELSE 0) + (IF sc THEN 32 ELSE 0) + (IF x = "menc" THEN 12 ELSE IF x = "mmod" THEN 4 ELSE 0) + 1
       IN <<ET_MACSEC, <<tci, sl + 64, 0, 0, 1, 44>> \o (IF sc THEN Pat(8, 3) ELSE <<>>) \o (IF unmod THEN Be16(et) ELSE <<>>) \o inner>>

RECURSIVE EncLinkExts(_, _, _)
EncLinkExts(xs, et, inner) ==
  IF xs = <<>> THEN <<et, inner>>
  ELSE LET r == EncLinkExts(Tail(xs), et, inner) IN EncLinkExt(Head(xs), r[1], r[2])

\* ---- link ------------------------------------------------------------------------
EncLink(lk, et, inner) ==
  CASE lk = "eth" -> Pat(12, 17) \o Be16(et) \o inner
    [] lk = "sll" -> <<0, 4, 0, 1, 0, 6>> \o Pat(8, 5) \o Be16(et) \o inner
    [] lk = "sllptype" -> <<0, 8, 0, 1, 0, 6>> \o Pat(8, 5) \o Be16(et) \o inner
    [] lk = "sllhw" -> <<0, 0, 0, 6, 0, 6>> \o Pat(8, 5) \o Be16(et) \o inner
    [] lk = "sllnetlink" -> <<0, 0, 3, 56, 0, 0>> \o Pat(8, 5) \o Be16(et) \o inner
    [] lk = "slllongaddr" -> <<0, 0, 0, 1, 0, 20>> \o Pat(8, 5) \o Be16(et) \o inner
    [] lk = "sllmaxaddr" -> <<0, 0, 0, 1, 255, 255>> \o Pat(8, 5) \o Be16(et) \o inner
    [] lk = "sllnonstd" -> <<0, 0, 0, 1, 0, 6>> \o Pat(8, 5) \o <<0, 4>> \o inner
    [] lk = "none" -> inner
LinkLen(lk) == CASE lk = "eth" -> 14 [] lk = "none" -> 0 [] OTHER -> 16
LinkEntry(lk) == CASE lk = "eth" -> "eth" [] lk = "none" -> "ether" [] OTHER -> "sll"

\* ---- a whole packet -----------------------------------------------------------------
Packet(r) ==
  LET tr == EncTransport(r.tr, r.plen)
      net == EncNet(r.net, tr)
      lx == EncLinkExts(r.exts, net[1], net[2])
  IN [bytes |-> EncLink(r.link, lx[1], lx[2]), et |-> lx[1], netoff |-> LinkLen(r.link) + Len(lx[2]) - Len(net[2]), netet |-> net[1]]

\* ---- defaults and the enumerated dimensions --------------------------------------------
DefTr == [k |-> "udp", v |-> "ok", n |-> 0]
DefV4 == [k |-> "ipv4", ihl |-> "ok", tl |-> "ok", frag |-> "no", ver |-> "ok", auth |-> "none", trail |-> 0]
DefV6 == [k |-> "ipv6", pl |-> "ok", ver |-> "ok", chain |-> <<>>, trail |-> 0]
Def   == [link |-> "eth", exts |-> <<>>, net |-> DefV4, tr |-> DefTr, plen |-> 5]

Transports ==
  {[k |-> "udp", v |-> v, n |-> 0] : v \in {"ok", "zero", "seven", "one", "minus", "plus", "hdr"}}
  \cup {[k |-> "tcp", v |-> v, n |-> 0] : v \in {"ok", "opt", "four", "zero", "max"}}
  \cup {[k |-> "icmp4", v |-> v, n |-> 0] : v \in {"echo", "ts", "tsr", "tscode", "unk"}}
  \cup {[k |-> "icmp6", v |-> v, n |-> 0] : v \in {"echo", "ns", "rs1", "rs0", "rs32", "rs255"}}
  \cup {[k |-> "raw", v |-> "raw", n |-> x] : x \in {253, 0, 43, 44, 51, 60, 59}}

V4s ==
  {[DefV4 EXCEPT !.ihl = x] : x \in {"opt", "four", "zero", "max"}}
  \cup {[DefV4 EXCEPT !.tl = x, !.trail = t] : x \in {"ok", "minus", "plus", "hdrminus", "hdr", "minus3", "max"}, t \in {0, 3}}
  \cup {[DefV4 EXCEPT !.frag = x] : x \in {"mf", "off", "rsv"}}
  \cup {[DefV4 EXCEPT !.ver = x] : x \in {"six", "five", "zero"}}
  \cup {[DefV4 EXCEPT !.auth = x, !.trail = t] : x \in {"ok", "zero", "cut", "big"}, t \in {0, 3}}
  \cup {[DefV4 EXCEPT !.ihl = "opt", !.tl = x, !.auth = "ok"] : x \in {"minus", "plus"}}
  \* options AND a damaged authentication header behind them (offsets of the AH faults depend on the real header length)
  \cup {[DefV4 EXCEPT !.ihl = i, !.auth = a, !.trail = t] : i \in {"opt", "max"}, a \in {"cut", "big", "zero"}, t \in {0, 3}}
  \* options present AND a total length between the fixed part and the real header length / at the header length
  \cup {[DefV4 EXCEPT !.ihl = i, !.tl = x, !.trail = t] : i \in {"opt", "max"}, x \in {"hdrminus", "hdr", "twenty", "minus", "plus"}, t \in {0, 3}}

ExtKinds == {<<0, "ok">>, <<60, "ok">>, <<43, "ok">>, <<44, "ok">>, <<44, "frag">>, <<51, "ok">>, <<60, "long">>, <<44, "rsv1">>, <<44, "rsv255">>}
ExtFaults == {<<0, "cut">>, <<60, "big">>, <<43, "cut">>, <<44, "cut">>, <<51, "zero">>, <<51, "cut">>, <<51, "big">>, <<44, "more">>}
Chains ==
  {<<a>> : a \in ExtKinds \cup ExtFaults}
  \cup {<<a, c>> : a \in ExtKinds, c \in ExtKinds \cup ExtFaults}
  \cup {<<<<0, "ok">>, <<60, "ok">>, <<43, "ok">>, <<44, "ok">>, <<51, "ok">>, <<60, "ok">>>>,      \* RFC 8200 order, all slots
        <<<<60, "ok">>, <<60, "ok">>, <<43, "cut">>>>,                                                  \* slot full, fault behind it
        <<<<43, "ok">>, <<60, "ok">>, <<60, "ok">>, <<44, "cut">>>>,
        <<<<44, "ok">>, <<44, "frag">>, <<51, "ok">>, <<51, "zero">>>>,
        <<<<60, "ok">>, <<0, "ok">>>>}
V6s ==
  {[DefV6 EXCEPT !.pl = x, !.trail = t] : x \in {"ok", "zero", "minus", "plus", "minus9", "max", "wrap", "wrapplus"}, t \in {0, 3}}
  \cup {[DefV6 EXCEPT !.pl = x, !.chain = c] : x \in {"max", "wrap"}, c \in {<<<<60, "ok">>>>, <<<<44, "ok">>>>}}
  \cup {[DefV6 EXCEPT !.ver = x] : x \in {"four", "five", "zero"}}
  \cup {[DefV6 EXCEPT !.chain = c] : c \in Chains}
  \cup {[DefV6 EXCEPT !.chain = <<<<0, "jumbo">>>>, !.pl = x, !.trail = t] : x \in {"zero", "ok"}, t \in {0, 3}}
  \cup {[DefV6 EXCEPT !.chain = c, !.pl = x, !.trail = 3] : c \in {<<<<60, "ok">>>>, <<<<60, "cut">>>>, <<<<51, "cut">>>>, <<<<44, "ok">>, <<60, "big">>>>}, x \in {"zero", "minus", "plus"}}

Arps == {[k |-> "arp", hw |-> h[1], pr |-> h[2], trail |-> t] : h \in {<<6, 4>>, <<0, 0>>, <<1, 1>>, <<20, 16>>, <<255, 255>>}, t \in {0, 3}}
Others == {[k |-> "other", et |-> 4660], [k |-> "none", et |-> ET_IPV4], [k |-> "none", et |-> ET_IPV6], [k |-> "none", et |-> ET_ARP]}

LinkExtKinds == {"v8100", "v88a8", "v9100", "m0", "msc", "mshort", "mlong", "mmod", "menc", "mver", "msl1", "msl2"}
ExtSeqs ==
  {<<a>> : a \in LinkExtKinds} \cup {<<a, c>> : a \in {"v8100", "m0", "msc", "mshort"}, c \in LinkExtKinds}
  \cup {<<"v8100", "v88a8", "v9100">>, <<"v8100", "v8100", "v8100", "v8100">>, <<"m0", "msc", "m0">>, <<"msc", "msc", "msc", "msc">>,
        <<"v8100", "msc", "v88a8", "m0">>, <<"msc", "v8100", "mlong">>}

Links == {"eth", "sll", "sllptype", "sllhw", "sllnetlink", "sllnonstd", "slllongaddr", "sllmaxaddr", "none"}

\* star design: one or two dimensions away from the default
RecipesQuick ==
  {[Def EXCEPT !.tr = t, !.plen = p] : t \in Transports, p \in {0, 5}}
  \cup {[Def EXCEPT !.net = n] : n \in V4s \cup V6s \cup Arps \cup Others}
  \cup {[Def EXCEPT !.net = DefV6, !.tr = t] : t \in Transports}
  \cup {[Def EXCEPT !.exts = x] : x \in ExtSeqs}
  \cup {[Def EXCEPT !.exts = x, !.net = n] : x \in {<<"msc">>, <<"v8100", "mshort">>, <<"m0", "v8100">>},
                                                n \in {[DefV4 EXCEPT !.trail = 3], [DefV6 EXCEPT !.trail = 3],
                                                       [DefV6 EXCEPT !.chain = <<<<60, "cut">>>>], [DefV4 EXCEPT !.tl = "plus"],
                                                       [k |-> "arp", hw |-> 6, pr |-> 4, trail |-> 3], [k |-> "arp", hw |-> 20, pr |-> 16, trail |-> 0]}}
  \cup {[Def EXCEPT !.link = l] : l \in Links}
  \cup {[Def EXCEPT !.link = l, !.exts = x, !.net = n] : l \in {"sll", "none"}, x \in {<<>>, <<"v8100">>, <<"msc">>}, n \in {DefV4, DefV6, [DefV6 EXCEPT !.ver = "four"]}}

\* thorough: larger sub products
RecipesThorough ==
  RecipesQuick
  \cup {[Def EXCEPT !.net = n, !.tr = t] : n \in V4s \cup V6s, t \in Transports}
  \cup {[Def EXCEPT !.exts = x, !.net = n] : x \in ExtSeqs, n \in {DefV4, DefV6, [DefV4 EXCEPT !.trail = 3, !.tl = "minus3"], [DefV6 EXCEPT !.pl = "zero", !.trail = 3]}}
  \cup {[Def EXCEPT !.link = l, !.exts = x] : l \in Links, x \in ExtSeqs}
====
