---- MODULE Trace_TcpOpts ----
(* Trace validation of the TCP option encoder and iterator: every next() call of the real iterator is one
   NextOpt step of the machine (item, remaining length), the encoder's bytes/len/data offset are Encode(l). *)
EXTENDS TcpOpts, Json, IOUtils

CONSTANT KnownDev
Rec == ndJsonDeserialize(IOEnv.TRACE)

\* one observed step against one step of the machine
StepMism(x, o) ==      \* x = <<result, new state>> of NextOpt;  o = [r, rest]
  LET r == x[1] IN
  (IF o.rest # Len(x[2].rest) THEN {"iter.rest"} ELSE {})
  \cup (CASE r[1] = "none" -> (IF o.r.k # "none" THEN {"iter.expected_end:" \o o.r.k} ELSE {})
          [] r[1] = "item" -> (IF o.r.k # "item" THEN {"iter.expected_item:" \o o.r.k}
                               ELSE IF o.r.kind # r[2] \/ o.r.v # r[3] THEN {"iter.item_value"} ELSE {})
          [] r[1] = "err"  -> (IF o.r.k # "err" THEN {"iter.expected_error:" \o o.r.k}
                               ELSE IF <<o.r.e, o.r.a, o.r.b, o.r.c>> \notin r[2] THEN {"iter.error_fields"} ELSE {}))

RECURSIVE StepsMism(_, _, _)
StepsMism(it, steps, i) ==
  IF i > Len(steps) THEN {}
  ELSE LET x == NextOpt(it) IN StepMism(x, steps[i]) \cup StepsMism(x[2], steps, i + 1)

\* the recorded steps must reach the end and probe it three times (bounded iteration, StaysDead)
Ended(steps) == Len(steps) >= 3 /\ \A i \in (Len(steps) - 2)..Len(steps) : steps[i].r.k = "none"

RawMism(e) ==
  StepsMism(Iter0(e.bytes), e.steps, 1)
  \cup (IF ~Ended(e.steps) THEN {"iter.unbounded_or_not_dead"} ELSE {})
  \cup (IF Len(e.steps) > Len(e.bytes) + 3 THEN {"iter.more_items_than_bytes"} ELSE {})
  \cup (IF e.hdr_same = 0 THEN {"header_slice_iterator_differs"} ELSE {})
  \cup (IF e.opts_same = 0 THEN {"to_header_options_differ"} ELSE {})
  \cup (IF e.alt # 1 THEN {"from_slice.other_doors_differ"} ELSE {})
  \cup (IF Len(e.bytes) <= MaxLen
        THEN (IF e.from_slice.k # "ok" THEN {"from_slice.rejected"}
              ELSE IF e.from_slice.bytes # e.bytes \o [i \in 1..(PadLen(Len(e.bytes)) - Len(e.bytes)) |-> END]
                      \/ e.from_slice.doff # 5 + PadLen(Len(e.bytes)) \div 4 THEN {"from_slice.bytes"} ELSE {})
        ELSE (IF e.from_slice.k # "err" \/ e.from_slice.n # Len(e.bytes) THEN {"from_slice.accepted_too_long"} ELSE {}))
  \cup (IF Tiling(e.bytes) /\ Bounded(e.bytes) THEN {} ELSE {"SPEC.props"})

ElemsMism(e) ==
  LET l == [i \in 1..Len(e.elems) |-> <<e.elems[i][1], e.elems[i][2]>>]
      req == Required(l) IN
  IF req > MaxLen
  THEN (IF e.res.k # "err" THEN {"encode.accepted_too_long"} ELSE IF e.res.n # req THEN {"encode.required_size"} ELSE {})
       \cup (IF e.set.k # "err" THEN {"set_options.accepted_too_long"}
             ELSE (IF e.set.doff # req THEN {"set_options.required_size"} ELSE {}) \cup (IF e.set.unchanged # 1 THEN {"set_options.changed_on_error"} ELSE {}))
       \cup (IF e.alt # 1 THEN {"encode.other_doors_differ"} ELSE {})
  ELSE LET enc == Encode(l) IN
       (IF e.res.k # "ok" THEN {"encode.rejected"}
        ELSE (IF e.res.bytes # enc THEN {"encode.bytes"} ELSE {})
             \cup (IF e.res.len # Len(enc) \/ e.res.doff # 5 + Len(enc) \div 4 THEN {"encode.len"} ELSE {})
             \cup StepsMism(Iter0(enc), e.res.steps, 1)
             \cup (IF ~Ended(e.res.steps) THEN {"iter.unbounded_or_not_dead"} ELSE {}))
       \cup (IF e.set.k # "ok" THEN {"set_options.rejected"}
             ELSE IF e.set.bytes # enc \/ e.set.doff # 5 + Len(enc) \div 4 \/ e.set.hlen # 20 + Len(enc) THEN {"set_options.bytes"} ELSE {})
       \cup (IF Fits(l) THEN {} ELSE {"SPEC.Fits"})
       \cup (IF e.alt # 1 THEN {"encode.other_doors_differ"} ELSE {})
       \* the same call on a header that already holds other bytes decoding to the same list
       \cup (IF \E i \in 1..Len(e.pre) : e.pre[i].ok # 1 \/ e.pre[i].bytes # enc \/ e.pre[i].doff # 5 + Len(enc) \div 4 \/ e.pre[i].hlen # 20 + Len(enc)
             THEN {"set_options.depends_on_previous_options"} ELSE {})

VARIABLES l, bad
TraceInit == l = 1 /\ bad = {}
TraceNext == /\ l <= Len(Rec)
             /\ LET e == Rec[l]
                    ms == IF e.ev = "opts_raw" THEN RawMism(e) ELSE IF e.ev = "opts_elems" THEN ElemsMism(e) ELSE {"panic"}
                IN bad' = bad \cup {<<e.id, t>> : t \in ms}
             /\ l' = l + 1
TraceSpec == TraceInit /\ [][TraceNext]_<<l, bad>>
TraceAccepted == TLCGet("stats").diameter - 1 = Len(Rec)
Report == (l = Len(Rec) + 1) => PrintT(<<"TRACE-RESULT", ToJson([events |-> Len(Rec), bad |-> bad, known |-> {}])>>)
====
