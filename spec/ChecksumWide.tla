---- MODULE ChecksumWide ----
(* Refinement of the RFC 1071 accumulator machine (Checksum.tla) by the algorithm checksum.rs really runs:
   a wide register (u64 resp. u32) that takes native endian limbs of 8 / 4 / 2 bytes with an end-around carry OF THE
   REGISTER (overflowing_add + carry), an odd tail padded with a zero byte, and a final fold of the register into one
   16 bit word in three (u64) resp. two (u32) steps followed by `as u16`, complement and byte swap (`to_be()`).

   TLC integers are 32 bit, so the widths are SCALED DOWN: a "byte" has B bits (2 or 3 instead of 8), a word two bytes,
   the register W bytes (8 = u64, 4 = u32).  Every argument that makes the real algorithm right is width independent
   (2^(2B) = 1 mod 2^(2B)-1: limbs may be added as wide numbers; byte order independence RFC 1071 2(B); a register carry
   is worth 1; the number of fold steps depends on the NUMBER of words per register only), so every one of them is
   exercised, exhaustively, at the scaled widths: all byte strings up to MaxLen from all start registers in R0.

   Binding to the code at the real widths: Trace_Checksum follows the real registers step by step (cks_steps events,
   folded after every add) and from saturated start values (cks_sat events: u32_full / u64_full).

   One action per limb the code adds (Limb(n) for n = W, W/2, .. 2, then OddTail); the control flow of add_slice
   (largest limbs first, each smaller limb at most once, tail last) is what enables them. *)
EXTENDS Integers, Sequences, FiniteSets, TLC

CONSTANTS B, W, MaxLen, R0Kind, Alphabet

U == 2 ^ B                   \* values of one "byte"
M == U * U                   \* values of one word (65536 in the code)
Reg == U ^ W                 \* values of the register (2^64 / 2^32 in the code)

\* ---- the abstract machine at the scaled width (Checksum!Add1c / Word / Sum with 65535 replaced by M - 1) ----
Add1c(a, w) == LET t == a + w IN IF t > M - 1 THEN t - (M - 1) ELSE t
BeWord(b, i) == b[i] * U + (IF i + 1 <= Len(b) THEN b[i + 1] ELSE 0)
RECURSIVE SumFrom(_, _, _)
SumFrom(acc, b, i) == IF i > Len(b) THEN acc ELSE SumFrom(Add1c(acc, BeWord(b, i)), b, i + 2)
Sum(acc, b) == SumFrom(acc, b, 1)

\* ---- the concrete algorithm ----
RECURSIVE Le(_)
Le(bs) == IF bs = <<>> THEN 0 ELSE Head(bs) + U * Le(Tail(bs))          \* from_ne_bytes on a little endian host
AddReg(r, v) == LET t == r + v IN IF t >= Reg THEN t - Reg + 1 ELSE t     \* overflowing_add, then + carry
Hi(x) == (x \div M) % M
Lo(x) == x % M
\* ones_complement() before the final `!`: u64: first = sum of the four words, second = hi + lo, third = hi + lo, `as u16`
\*                                       u32: first = hi + lo,              second = hi + lo, `as u16`
RECURSIVE WordsOf(_, _)
WordsOf(r, n) == IF n = 0 THEN 0 ELSE Lo(r) + WordsOf(r \div M, n - 1)
First(r) == WordsOf(r, W \div 2)
Second(r) == Hi(First(r)) + Lo(First(r))
BeforeCast(r) == IF W = 8 THEN Hi(Second(r)) + Lo(Second(r)) ELSE Second(r)
FoldReg(r) == BeforeCast(r) % M                                            \* `as u16`
Swap(w) == (w % U) * U + (w \div U)                                       \* to_be() on a little endian host
Result(r) == Swap((M - 1) - FoldReg(r))                                   \* what ones_complement().to_be() returns

VARIABLES data, r0, reg, pos, smaller
vars == <<data, r0, reg, pos, smaller>>

Strings == UNION {[1..n -> Alphabet] : n \in 0..MaxLen}      \* Alphabet \subseteq 0..(U - 1)
\* start registers: empty, saturated, one below, a carry-critical top word, (thorough) everything built from four byte values
R0 == IF R0Kind = "edges" THEN {0, Reg - 1, Reg - 2, Reg - M, (M - 1) * (Reg \div M), Reg \div 2}
      ELSE {Le(s) : s \in [1..W -> {0, 1, U - 2, U - 1}]}
Init == data \in Strings /\ r0 \in R0 /\ reg = r0 /\ pos = 0 /\ smaller = W

\* a limb of n bytes; `smaller` = size of the largest limb still allowed: the W byte loop runs while W bytes are left, every
\* smaller limb is added at most once, in decreasing order
Limb(n) == /\ n <= smaller /\ pos + n <= Len(data)
           /\ (n = W \/ (Len(data) - pos < 2 * n /\ \A k \in {W, W \div 2, W \div 4} : (k > n /\ k <= smaller) => Len(data) - pos < k))
           /\ reg' = AddReg(reg, Le(SubSeq(data, pos + 1, pos + n)))
           /\ pos' = pos + n /\ smaller' = IF n = W THEN W ELSE n \div 2
           /\ UNCHANGED <<data, r0>>
OddTail == /\ Len(data) - pos = 1 /\ reg' = AddReg(reg, data[Len(data)]) /\ pos' = pos + 1 /\ smaller' = 0 /\ UNCHANGED <<data, r0>>
Next == (\E n \in {k \in {W, W \div 2, W \div 4} : k >= 2} : Limb(n)) \/ OddTail
Spec == Init /\ [][Next]_vars

\* ---- refinement: the folded register IS the accumulator of the abstract machine, after every limb ----
Abs(r) == Swap(FoldReg(r))                                                \* big endian word sum represented by a register
Refines == pos % 2 = 0 \/ pos = Len(data) => Abs(reg) = Sum(Abs(r0), SubSeq(data, 1, pos))
\* `as u16` never cuts off a carry (one fold step too few would)
NoTruncation == BeforeCast(reg) < M
\* the two zeros: a register folds to 0 only if it IS 0 (so that "sum 0" is reported for all-zero data only)
ZeroOnlyForZero == FoldReg(reg) = 0 => reg = 0
\* the control flow consumes every byte: a state without successor has pos = Len(data)
Consumes == (~ ENABLED Next) => pos = Len(data)
\* result as the caller sees it
ResultIsRfc1071 == pos = Len(data) => Result(reg) = (M - 1) - Sum(Abs(r0), data)
====
