---- MODULE Builder ----
(* PacketBuilder as a typestate machine.  state \in {start, eth, sll, vlan, ip, udp, tcp, icmp4, icmp6, arp, written};
   every builder method is an action whose guard is the typestate the Rust type system enforces; the configuration
   accumulated on the way determines, at Write(plen), the announced size, whether the packet is encodable
   (payload fits every length field on its path, ICMPv6 not in IPv4) and the layer sequence that a strict decoder
   must find in the emitted bytes. *)
EXTENDS Integers, Sequences, FiniteSets, TLC

Cfg0 == [link |-> "none", vlan |-> 0, net |-> "", opts |-> 0, auth |-> 0, exts |-> <<>>, tr |-> "", tcp_flags |-> 0, tcp_opts |-> 0, last |-> 0, plen |-> 0]

\* lengths of the parts (the harness uses fixed extension sizes: hbh 8, dst 16, route 8, frag 8, auth 16, fdst 24; IPv4 auth 20)
ExtLenOf(s) == CASE s = "hbh" -> 8 [] s = "dst" -> 16 [] s = "route" -> 8 [] s = "frag" -> 8 [] s = "auth" -> 16 [] s = "fdst" -> 24
RECURSIVE SumExt(_)
SumExt(xs) == IF xs = <<>> THEN 0 ELSE ExtLenOf(Head(xs)) + SumExt(Tail(xs))
IsV4(c) == c.net \in {"ipv4", "ip4"}
LinkLen(c) == CASE c.link = "eth" -> 14 [] c.link = "sll" -> 16 [] OTHER -> 0
VlanLen(c) == IF c.vlan \in {2, 4} THEN 8 ELSE IF c.vlan = 0 THEN 0 ELSE 4
NetLen(c) == IF c.net = "arp" THEN 28 ELSE IF IsV4(c) THEN 20 + c.opts ELSE 40
ExtLen(c) == IF c.net = "ip4" THEN c.auth * 20 ELSE IF c.net = "ip6" THEN SumExt(c.exts) ELSE 0
TrLen(c) == CASE c.tr = "udp" -> 8 [] c.tr \in {"tcp", "tcphdr"} -> 20 + c.tcp_opts [] c.tr = "raw" -> 0 [] c.tr = "" -> 0 [] OTHER -> 8
Size(c) == LinkLen(c) + VlanLen(c) + NetLen(c) + ExtLen(c) + TrLen(c) + (IF c.net = "arp" THEN 0 ELSE c.plen)

\* the largest payload the path can carry: the innermost 16 bit length field that applies
MaxPayload(c) == IF IsV4(c) THEN 65535 - 20 - c.opts - ExtLen(c) - TrLen(c) ELSE 65535 - ExtLen(c) - TrLen(c)
Icmp6InV4(c) == IsV4(c) /\ c.tr \in {"icmp6echo", "icmp6reply", "icmp6raw", "icmp6typed"}
\* admissible outcomes of Write
Outcomes(c) ==
  IF c.net = "arp" THEN {"ok"}
  ELSE (IF c.plen > MaxPayload(c) THEN {"PayloadLen"} ELSE {}) \cup (IF Icmp6InV4(c) THEN {"Icmpv6InIpv4"} ELSE {})
       \cup (IF c.plen <= MaxPayload(c) /\ ~Icmp6InV4(c) THEN {"ok"} ELSE {})

TrKind(c) == CASE c.tr = "udp" -> "udp" [] c.tr \in {"tcp", "tcphdr"} -> "tcp" [] c.tr \in {"icmp4echo", "icmp4reply", "icmp4raw", "icmp4typed"} -> "icmp4"
               [] c.tr \in {"icmp6echo", "icmp6reply", "icmp6raw", "icmp6typed"} -> "icmp6" [] OTHER -> "none"
TrProto(c) == CASE TrKind(c) = "udp" -> 17 [] TrKind(c) = "tcp" -> 6 [] TrKind(c) = "icmp4" -> 1 [] TrKind(c) = "icmp6" -> 58 [] OTHER -> c.last
\* layer kinds a strict decoder must report
Kinds(c) ==
  (IF c.link = "none" THEN <<>> ELSE <<c.link>>) \o [i \in 1..(IF c.vlan \in {2, 4} THEN 2 ELSE IF c.vlan = 0 THEN 0 ELSE 1) |-> "vlan"]
  \o (IF c.net = "arp" THEN <<"arp">>
      ELSE IF IsV4(c) THEN <<"ipv4">> \o (IF ExtLen(c) > 0 THEN <<"auth">> ELSE <<>>)
      ELSE <<"ipv6">> \o (IF ExtLen(c) > 0 THEN <<"exts">> ELSE <<>>))
  \o (IF TrKind(c) = "none" THEN <<>> ELSE <<TrKind(c)>>)
====
