---- MODULE IoFault ----
(* I/O faults (C16) as machines.

   Writer: a sink that accepts `cap` bytes.  A header write is a sequence of WriteAll(chunk) steps (the
   chunking is the implementation's business); at the fault std::io::Write::write_all may deliver any prefix
   of the failing chunk.  Property: what reached the sink is always a prefix of the complete encoding, the
   operation reports success iff everything was delivered.

   Reader: delivers the first failAt bytes of `data`, then fails.  A header read is a sequence of
   ReadExact(n) steps.

   LimitedReader (etherparse::io::LimitedReader): [max_len, read_len, layer_offset] over an underlying
   reader position `pos`; read_exact checks the remaining budget BEFORE delegating, start_layer moves the
   budget.  Property: pos - start never exceeds the initial max_len. *)
EXTENDS Integers, Sequences, FiniteSets, TLC

IsPrefix(a, b) == Len(a) <= Len(b) /\ \A i \in 1..Len(a) : a[i] = b[i]

\* ---- writer ----
W0 == [got |-> <<>>, failed |-> FALSE]
\* all states reachable by write_all(chunk) on a sink with capacity cap
WriteAll(w, chunk, cap) ==
  IF w.failed THEN {w}
  ELSE IF Len(w.got) + Len(chunk) <= cap THEN {[w EXCEPT !.got = @ \o chunk]}
  ELSE {[got |-> w.got \o SubSeq(chunk, 1, n), failed |-> TRUE] : n \in 0..(cap - Len(w.got))}

\* ---- limited reader ----
L0(max) == [max |-> max, rd |-> 0, off |-> 0, pos |-> 0, err |-> FALSE]
LReadExact(l, n, avail) ==       \* avail: bytes the underlying reader still has
  IF l.err THEN l
  ELSE IF l.max - l.rd < n THEN [l EXCEPT !.err = TRUE]                 \* budget exceeded: nothing is pulled
  ELSE IF avail < n THEN [l EXCEPT !.err = TRUE, !.pos = @ + avail]      \* underlying reader runs dry
  ELSE [l EXCEPT !.rd = @ + n, !.pos = @ + n]
LStartLayer(l) == [l EXCEPT !.off = @ + l.rd, !.max = @ - l.rd, !.rd = 0]
====
