---- MODULE Trace_Fields ----
(* Trace validation of the length-taking setters / constructors and the bounded newtypes against Fields!Expect. *)
EXTENDS Fields, Json, IOUtils

CONSTANT KnownDev
Rec == ndJsonDeserialize(IOEnv.TRACE)

SetMism(e) ==
  LET x == Expect(e.api, e.ctx, e.v) IN
  IF x.ok
  THEN (IF e.ok # 1 THEN {"rejected_representable_value:" \o e.api}
        ELSE IF x.enc # -1 /\ e.enc # x.enc THEN {"encoded_value_differs:" \o e.api} ELSE {})
  ELSE (IF e.ok = 1 THEN {"accepted_out_of_range_value:" \o e.api}
        ELSE (IF e.v # Huge /\ <<e.kind, e.actual, e.max>> \notin x.errs THEN {"error_fields:" \o e.api} ELSE {})
             \cup (IF e.unchanged = 0 THEN {"changed_on_error:" \o e.api} ELSE {}))

VARIABLES l, bad
TraceInit == l = 1 /\ bad = {}
TraceNext == /\ l <= Len(Rec)
             /\ LET e == Rec[l]
                    ms == IF e.ev = "set" THEN SetMism(e) ELSE {"panic:" \o e.api}
                IN bad' = bad \cup {<<e.id, t>> : t \in ms}
             /\ l' = l + 1
TraceSpec == TraceInit /\ [][TraceNext]_<<l, bad>>
TraceAccepted == TLCGet("stats").diameter - 1 = Len(Rec)
Report == (l = Len(Rec) + 1) => PrintT(<<"TRACE-RESULT", ToJson([events |-> Len(Rec), bad |-> bad, known |-> {}])>>)
====
