---- MODULE Trace_Wire ----
(* Trace validation of the header codecs: all serialisers must produce exactly Enc(kind, fields) of spec/Wire.tla,
   of the announced length; decoding (from slice and from io::Read) must return the value, leave nothing behind
   and consume exactly the header; decode -> re-encode must clear exactly the reserved bits. *)
EXTENDS Wire, Json, IOUtils, TLC

CONSTANT KnownDev
C == INSTANCE Checksum
Rec == ndJsonDeserialize(IOEnv.TRACE)

ValueMism(e) ==
  LET x == Enc(e.type, e.f) IN
  (IF e.to_bytes # x THEN {"encode.to_bytes:" \o e.type} ELSE {})
  \cup (IF e.write # x THEN {"encode.write:" \o e.type} ELSE {})
  \cup (IF e.has_slice = 1 /\ e.slice # x THEN {"encode.write_to_slice:" \o e.type} ELSE {})
  \cup (IF e.hlen # Len(x) THEN {"header_len:" \o e.type} ELSE {})
  \cup (IF e.dec_f # e.f THEN {"decode.fields:" \o e.type} ELSE {})
  \cup (IF e.eq # 1 THEN {"decode.value_differs:" \o e.type} ELSE {})
  \cup (IF e.rest # 0 THEN {"decode.remainder:" \o e.type} ELSE {})
  \cup (IF e.read_eq = 0 THEN {"read.value_differs:" \o e.type} ELSE {})
  \cup (IF e.read_used # -1 /\ e.read_used # Len(x) THEN {"read.consumed:" \o e.type} ELSE {})
  \cup (IF e.from_bytes_eq = 0 THEN {"from_bytes_or_write_checksum:" \o e.type} ELSE {})
  \* Ipv4Header::write() recomputes the header checksum: the encoding with bytes 10..11 replaced by the RFC 791 checksum of the header
  \cup (IF e.type = "ipv4" /\ e.write2 # [i \in 1..Len(x) |-> IF i = 11 THEN C!Cks(C!ZeroAt(x, 10)) \div 256 ELSE IF i = 12 THEN C!Cks(C!ZeroAt(x, 10)) % 256 ELSE x[i]]
        THEN {"encode.write_checksum:ipv4"} ELSE {})
  \* the value is the field sequence, however it was constructed (longer ICV / payload first, then the setter)
  \cup (IF e.alt = 0 THEN {"value.depends_on_construction_history:" \o e.type} ELSE {})
  \cup (IF Dec(e.type, x) # e.f THEN {"SPEC.RoundTrip"} ELSE {})

BytesMism(e) ==
  LET d == Dec(e.type, e.bytes) IN
  (IF e.dec_f # d THEN {"decode.fields:" \o e.type} ELSE {})
  \cup (IF e.re # Enc(e.type, d) THEN {"reencode:" \o e.type} ELSE {})
  \cup (IF e.again # 1 THEN {"reencode.not_stable:" \o e.type} ELSE {})

\* any byte string through both decoders: what a decoder accepts re-encodes to bytes every decoder accepts and decodes to the same value
AnyMism(e) ==
  (IF e.slice[1] = 1 /\ e.slice[2] # 1 THEN {"decode.reencode_not_stable:from_slice:" \o e.type} ELSE {})
  \cup (IF e.read[1] = 1 /\ e.read[2] # 1 THEN {"decode.reencode_not_stable:read:" \o e.type} ELSE {})
  \* ... and the re-encoding is the encoding of the decoded fields: the original header bytes with exactly the reserved bits cleared
  \* (the typed ICMP headers normalise unused bytes: their fidelity belongs to Ctl.tla)
  \cup (IF e.slice[1] = 1 /\ e.type \notin {"icmp4", "icmp6"} /\ e.sre # Enc(e.type, Dec(e.type, SubSeq(e.bytes, 1, HdrLen(e.type, e.bytes))))
        THEN {"reencode:" \o e.type} ELSE {})
  \* the io::Read decoder of the same bytes: same fields, so the same re-encoding
  \cup (IF e.read[1] = 1 /\ e.type \notin {"icmp4", "icmp6"} /\ e.rre # Enc(e.type, Dec(e.type, SubSeq(e.bytes, 1, HdrLen(e.type, e.bytes))))
        THEN {"reencode.read:" \o e.type} ELSE {})

VARIABLES l, bad
TraceInit == l = 1 /\ bad = {}
TraceNext == /\ l <= Len(Rec)
             /\ LET e == Rec[l]
                    ms == CASE e.ev = "wire" -> ValueMism(e) [] e.ev = "wire_bytes" -> BytesMism(e) [] e.ev = "wire_any" -> AnyMism(e) [] OTHER -> {"panic:" \o e.type}
                IN bad' = bad \cup {<<e.id, t>> : t \in ms}
             /\ l' = l + 1
TraceSpec == TraceInit /\ [][TraceNext]_<<l, bad>>
TraceAccepted == TLCGet("stats").diameter - 1 = Len(Rec)
Report == (l = Len(Rec) + 1) => PrintT(<<"TRACE-RESULT", ToJson([events |-> Len(Rec), bad |-> bad, known |-> {}])>>)
====
