---- MODULE Trace_Defrag ----
(* Trace validation of the fragment pool: every recorded operation on a real IpDefragPool is one
   action of Defrag.tla; the value returned by process_sliced_packet and the pool occupancy
   (hook H3) are compared after EVERY delivery, and all invariants of the specification are
   evaluated in every state the real execution passes through. *)
EXTENDS Defrag, Json, IOUtils

CONSTANT KnownDev

Rec == ndJsonDeserialize(IOEnv.TRACE)

VARIABLES l, bad, sync     \* sync = FALSE after a mismatch: wait for the next reset
tvars == <<vars, l, bad, sync>>

ByteOf(c) == LET s == c \div 100000  g == (c \div 10000) % 10  p == c % 10000 IN ((s * 59 + g * 101 + p * 7 + 13) % 199) + 1

TraceInit == Init /\ l = 1 /\ bad = {} /\ sync = TRUE

Ev == Rec[l]
Consume == l <= Len(Rec) /\ l' = l + 1

TReset ==
  /\ Consume /\ Ev.ev = "reset"
  /\ active' = << >> /\ free' = <<>> /\ gen' = [s \in Streams |-> 0] /\ out' = NoOut
  /\ sync' = TRUE /\ UNCHANGED bad

Counts(e) == e.active = Cardinality(DOMAIN active') /\ e.free_data = Len(free')

ResMism(e) ==
  (IF e.res.k # out'.k THEN {"result.kind:" \o e.res.k \o "/" \o out'.k} ELSE {})
  \cup (IF e.res.k = "ok" /\ out'.k = "ok" /\ e.res.bytes # [i \in 1..Len(out'.cells) |-> IF out'.cells[i] = Junk THEN -1 ELSE ByteOf(out'.cells[i])]
        THEN {"result.bytes"} ELSE {})
  \cup (IF e.res.k = "ok" /\ e.res.proto # e.xproto THEN {"result.proto"} ELSE {})
  \cup (IF e.res.k = "err" /\ out'.k = "err" /\ e.res.err \notin out'.kinds THEN {"result.errkind"} ELSE {})

\* Pool occupancy (hook H3: streams under reassembly, recycled buffers) is logged and compared for information only: C11 does not say how
\* many buffers a pool keeps or when it allocates them (a pool that allocates lazily or recycles differently keeps the property), so a
\* difference is not a violation.  What C11 does say about releasing a finished stream is observable through the results: a fragment that
\* arrives after completion starts a new reassembly.

\* the reassembly state itself, read from an IpDefragBuf that is fed the same fragments (sections(), end(), is_complete(), data().len())
ShadowMism(e) ==
  IF e.shadow.has # 1 THEN {} ELSE
  LET h == e.shadow
      known == e.s \in DOMAIN active'
      secs == {<<h.secs[i][1], h.secs[i][2]>> : i \in 1..Len(h.secs)}
      \* which bytes have been received - not how the ranges are stored (merged or not, in which order)
      Cover(S) == UNION {a[1]..(a[2] - 1) : a \in S} IN
  (IF (h.k = "ok") # (out'.k # "err") THEN {"buf.verdict:" \o h.k} ELSE IF h.k # "ok" /\ h.k \notin out'.kinds THEN {"buf.errkind"} ELSE {})
  \cup (IF (h.complete = 1) # (out'.k = "ok") THEN {"buf.is_complete"} ELSE {})
  \cup (IF known THEN (IF Cover(secs) # Cover(active'[e.s].secs) THEN {"buf.sections"} ELSE {})
                       \cup (IF h.end # active'[e.s].end THEN {"buf.end"} ELSE {})
        ELSE IF out'.k = "ok" THEN (IF Cover(secs) # 0..(Len(out'.cells) - 1) \/ h.end # Len(out'.cells) THEN {"buf.sections"} ELSE {})
        ELSE (IF h.secs # <<>> \/ h.end # -1 THEN {"buf.state_after_rejected_first_fragment"} ELSE {}))
  \cup (IF h.proto # e.xproto THEN {"buf.ip_number"} ELSE {})

Note(e, ms) == /\ bad' = IF ms = {} \/ ~sync THEN bad ELSE bad \cup {<<e.id, m>> : m \in ms}
               /\ sync' = (sync /\ ms = {})

TDeliver ==
  /\ Consume /\ Ev.ev = "deliver"
  /\ Deliver(Ev.s, Frag(Ev.off, Ev.len, Ev.mf = 1))
  /\ Note(Ev, ResMism(Ev) \cup ShadowMism(Ev) \cup (IF Inv' THEN {} ELSE {"SPEC.Inv"}))

TPass ==
  /\ Consume /\ Ev.ev = "pass"
  /\ PassThrough
  /\ Note(Ev, ResMism(Ev))

TReturn ==
  /\ Consume /\ Ev.ev = "return"
  /\ ReturnBuf([i \in 1..Ev.n |-> Junk])
  /\ Note(Ev, {})

TEvict ==
  /\ Consume /\ Ev.ev = "evict"
  /\ IF Ev.s \in DOMAIN active THEN Evict({Ev.s}) ELSE UNCHANGED vars
  /\ Note(Ev, {})

\* a panic inside the pool is recorded by the harness as an event of its own
TPanic == /\ Consume /\ Ev.ev = "panic" /\ bad' = bad \cup {<<Ev.id, "panic">>} /\ sync' = FALSE /\ UNCHANGED vars

TLen0 == [s \in Streams |-> 0]      \* datagram lengths are not needed to validate a trace

TraceNext == TReset \/ TDeliver \/ TPass \/ TReturn \/ TEvict \/ TPanic
TraceSpec == TraceInit /\ [][TraceNext]_tvars

TraceAccepted == TLCGet("stats").diameter - 1 = Len(Rec)
Report == (l = Len(Rec) + 1) =>
            PrintT(<<"TRACE-RESULT", ToJson([events |-> Len(Rec), bad |-> bad, known |-> {}])>>)
====
