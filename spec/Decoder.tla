---- MODULE Decoder ----
(* The layered packet decoder of etherparse as ONE state machine.

   The crate implements this machine four times as a whole-packet decoder
   (SlicedPacket, LaxSlicedPacket, PacketHeaders, LaxPacketHeaders) and twelve
   times at the IP boundary (IpSlice/Ipv4Slice/Ipv6Slice, LaxXxx, IpHeaders::from_xxx).
   Here it is written once; mode (strict/lax), family (slice/struct), entry point
   and "stop after the IP layer" are parameters of the initial state.

   State  s = [pos, lim)  the window of the input still to be decoded,
          src             the length field that currently bounds the window,
          layers          headers decoded so far (kind, offset, length, fields, own payload),
          pay             the payload that would be handed out if decoding ended now,
          next            which layer action is enabled next,
          v / err         verdict and, on a fault, the SET of error reports the property
                          C07 admits for it (every real fault of the faulty layer).

   One operator per layer action (DecEth, DecSll, DecVlan, DecMacsec, DecArp, DecIp,
   DecIpv4, DecIpv6, DecUdp, DecTcp, DecIcmp4, DecIcmp6); Step dispatches on s.next.
   Documented behaviour that is not "wire format" is a named operator (prefix Doc). *)
EXTENDS Wire, TLC

\* ---------------------------------------------------------------------------
\* fault descriptors (what an error report may say, C07)
LenF(layer, req, len, srcs) == [c |-> "len", layer |-> layer, req |-> req, len |-> len, srcs |-> srcs, name |-> "", val |-> -1]
ConF(name, val) == [c |-> "con", layer |-> "", req |-> -1, len |-> -1, srcs |-> {}, name |-> name, val |-> val]

NoErr == [at |-> -1, faults |-> {}, stops |-> {}]
NoPay == [k |-> "none", off |-> -1, len |-> -1, srcs |-> {}, num |-> -1, frag |-> -1, incs |-> {}]
Pay(k, off, len, srcs, num, frag, incs) ==
  [k |-> k, off |-> off, len |-> len, srcs |-> srcs, num |-> num, frag |-> frag, incs |-> incs]
\* f: field values as the slice accessors report them; sf: as the owned struct holds them
Layer(k, off, hlen, f, p) == [k |-> k, off |-> off, hlen |-> hlen, f |-> f, p |-> p,
                              sf |-> IF k \in {"icmp4", "icmp6"} THEN SubSeq(f, 1, 3) ELSE f]

A(s) == s.lim - s.pos                      \* bytes available to the next layer
W(s) == {"Slice", s.src}                   \* admissible length sources for "the window is too short"
Lax(s) == s.m = "lax"
IncS(s) == IF Lax(s) THEN {s.inc} ELSE {}  \* incomplete flag of a payload (lax only)
B2I(x) == IF x THEN 1 ELSE 0

\* entry \in {"eth", "sll", "ether", "ip", "ipv4", "ipv6"}; et only for "ether";
\* upto = "ip" stops after the network layer (the IP boundary functions)
Init0(b, m, fam, entry, et, upto) ==
  [devs |-> {}, hit |-> {}, m |-> m, fam |-> fam, upto |-> upto, pos |-> 0, lim |-> Len(b), src |-> "Slice", next |-> entry, et |-> et,
   nlx |-> 0, ipn |-> -1, frag |-> FALSE, inc |-> FALSE, first |-> entry # "ether", full |-> FALSE,
   layers |-> <<>>, v |-> "ok", err |-> NoErr,
   pay |-> IF entry = "ether" THEN Pay("ether", 0, Len(b), {"Slice"}, et, -1, IF m = "lax" THEN {FALSE} ELSE {}) ELSE NoPay]

\* A fault at offset `at`. Strict decoding (and a fault in the very first header in
\* lax mode) ends with Err; lax decoding otherwise keeps what it has and records the
\* fault as stop error on one of the layers `stops`.
Faulty(s, at, faults, stops) ==
  IF s.m = "strict" \/ s.first
  THEN [s EXCEPT !.v = "err", !.next = "done", !.err = [at |-> at, faults |-> faults, stops |-> {}]]
  ELSE [s EXCEPT !.next = "done", !.err = [at |-> at, faults |-> faults, stops |-> stops]]

Done(s) == [s EXCEPT !.next = "done"]

\* ---------------------------------------------------------------------------
\* link layer
DecEth(b, s) ==
  IF A(s) < 14 THEN Faulty(s, s.pos, {LenF("Ethernet2Header", 14, A(s), W(s))}, {"Ethernet2Header"})
  ELSE LET p == Pay("ether", s.pos + 14, A(s) - 14, {"Slice"}, U16(b, s.pos + 12), -1, IncS(s)) IN
       [s EXCEPT !.layers = Append(@, Layer("eth", s.pos, 14, FldEth(b, s.pos), p)),
                 !.pos = s.pos + 14, !.et = U16(b, s.pos + 12), !.pay = p, !.next = "ether", !.first = FALSE]

DecSll(b, s) ==
  \* (a header that is cut short AND shows a content fault in the bytes that are there may be reported either way: both faults are real)
  IF A(s) < 16 THEN Faulty(s, s.pos, {LenF("LinuxSllHeader", 16, A(s), W(s))}
                                     \cup (IF A(s) >= 2 /\ U16(b, s.pos) > 7 THEN {ConF("sll.ptype", U16(b, s.pos))} ELSE {})
                                     \cup (IF A(s) >= 4 /\ U16(b, s.pos + 2) \notin SllHwOk THEN {ConF("sll.hw", U16(b, s.pos + 2))} ELSE {}), {"LinuxSllHeader"}) ELSE
  LET pt == U16(b, s.pos)  hw == U16(b, s.pos + 2)  proto == U16(b, s.pos + 14)
      faults == (IF pt > 7 THEN {ConF("sll.ptype", pt)} ELSE {}) \cup (IF hw \notin SllHwOk THEN {ConF("sll.hw", hw)} ELSE {})
      isEt == hw = 1 /\ proto \notin SllNonStd
      p == Pay("sll", s.pos + 16, A(s) - 16, {"Slice"}, proto, -1, {})
  IN IF faults # {} THEN Faulty(s, s.pos, faults, {"LinuxSllHeader"})
     ELSE [s EXCEPT !.layers = Append(@, Layer("sll", s.pos, 16, FldSll(b, s.pos), p)),
                    !.pos = s.pos + 16, !.et = proto, !.first = FALSE,
                    !.pay = IF isEt THEN Pay("ether", s.pos + 16, A(s) - 16, {"Slice"}, proto, -1, IncS(s)) ELSE p,
                    !.next = IF isEt THEN "ether" ELSE "done"]

DecVlan(b, s) ==
  IF A(s) < 4 THEN Faulty(s, s.pos, {LenF("VlanHeader", 4, A(s), W(s))}, {"VlanHeader"})
  \* a VLAN header has no length field: its payload is never "incomplete"
  ELSE LET p == Pay("ether", s.pos + 4, A(s) - 4, W(s), U16(b, s.pos + 2), -1, IF Lax(s) THEN {FALSE} ELSE {}) IN
       [s EXCEPT !.layers = Append(@, Layer("vlan", s.pos, 4, FldVlan(b, s.pos), p)),
                 !.pos = s.pos + 4, !.et = U16(b, s.pos + 2), !.nlx = @ + 1, !.pay = p]

\* MACsec: short length sl > 0 announces the number of bytes after the SecTAG (incl. the
\* 2 ether type bytes the crate counts as header when the payload is unmodified)
DecMacsec(b, s) ==
  IF A(s) < 6 THEN Faulty(s, s.pos, {LenF("MacsecHeader", 6, A(s), W(s))}
                                    \cup (IF A(s) >= 1 /\ B(b, s.pos) >= 128 THEN {ConF("macsec.version", -1)} ELSE {})
                                    \cup (IF A(s) >= 2 /\ MsUnmod(B(b, s.pos)) /\ Bits(B(b, s.pos + 1), 0, 6) = 1 THEN {ConF("macsec.shortlen", -1)} ELSE {}), {"MacsecHeader"}) ELSE
  LET b0 == B(b, s.pos)  sl == Bits(B(b, s.pos + 1), 0, 6)
      unmod == MsUnmod(b0)  hl == MsHdrLen(b0)
      plen == IF unmod THEN sl - 2 ELSE sl
      short == sl > 0 /\ A(s) >= hl /\ A(s) < hl + plen          \* announced more than present
      hfaults == (IF b0 >= 128 THEN {ConF("macsec.version", -1)} ELSE {})
                 \cup (IF unmod /\ sl = 1 THEN {ConF("macsec.shortlen", -1)} ELSE {})
                 \cup (IF A(s) < hl THEN {LenF("MacsecHeader", hl, A(s), W(s))} ELSE {})
      faults == hfaults \cup (IF ~Lax(s) /\ short /\ hfaults = {}
                              THEN {LenF("MacsecPacket", hl + plen, A(s), W(s))} ELSE {})
  IN IF faults # {} THEN Faulty(s, s.pos, faults, {"MacsecHeader", "MacsecPacket"}) ELSE
     LET cut == sl > 0 /\ ~short
         lim2 == IF cut THEN s.pos + hl + plen ELSE s.lim
         src2 == IF cut THEN "MacsecShortLength" ELSE s.src
         inc2 == short                                             \* LaxIncompleteMacsec: its own length field only
         psrc == IF cut THEN {"MacsecShortLength"} ELSE W(s)
         p == IF unmod THEN Pay("ether", s.pos + hl, lim2 - s.pos - hl, psrc, U16(b, s.pos + hl - 2), -1, IF Lax(s) THEN {inc2} ELSE {})
              ELSE Pay("macsecmod", s.pos + hl, lim2 - s.pos - hl, psrc \cup {"any"}, -1, -1, IF Lax(s) THEN {inc2} ELSE {})
     IN [s EXCEPT !.layers = Append(@, Layer("macsec", s.pos, hl, FldMacsec(b, s.pos, hl), p)),
                  !.pos = s.pos + hl, !.lim = lim2, !.src = src2, !.inc = inc2, !.nlx = @ + 1, !.pay = p,
                  !.et = IF unmod THEN U16(b, s.pos + hl - 2) ELSE -1,
                  !.next = IF unmod THEN "ether" ELSE "done"]

\* ---------------------------------------------------------------------------
\* network layer
DecArp(b, s) ==
  IF A(s) < 8 THEN Faulty(s, s.pos, {LenF("Arp", 8, A(s), W(s))}, {"Arp"}) ELSE
  LET l == 8 + 2 * B(b, s.pos + 4) + 2 * B(b, s.pos + 5) IN
  IF A(s) < l THEN Faulty(s, s.pos, {LenF("Arp", l, A(s), W(s))}, {"Arp"})
  ELSE [s EXCEPT !.layers = Append(@, Layer("arp", s.pos, l, FldArp(b, s.pos, l), NoPay)),
                 !.pos = s.pos + l, !.pay = NoPay, !.next = "done"]

\* authentication header at p with a bytes available: <<"ok", len, next>> or <<"err", faults>>
Auth(b, p, a, srcs) ==
  IF a < 12 THEN <<"err", {LenF("IpAuthHeader", 12, a, srcs)} \cup (IF a >= 2 /\ B(b, p + 1) = 0 THEN {ConF("auth.zero", -1)} ELSE {})>>
  ELSE LET l == (B(b, p + 1) + 2) * 4
           faults == (IF B(b, p + 1) = 0 THEN {ConF("auth.zero", -1)} ELSE {})
                     \cup (IF a < l THEN {LenF("IpAuthHeader", l, a, srcs)} ELSE {})
       IN IF faults # {} THEN <<"err", faults>> ELSE <<"ok", l, B(b, p)>>

NextAfterIp(s) == IF s.upto = "ip" THEN "done" ELSE "transport"

\* typed = TRUE when the caller (ether type / typed function) says "this is IPv4"
DecIpv4(b, s, typed) ==
  LET a == A(s)
      v == Hi4(B(b, s.pos))  ihl == Lo4(B(b, s.pos))  hl == 4 * ihl
      \* the version nibble is not 4: typed doors say "unexpected", dispatching error types "unsupported" version
      vfault == IF a >= 1 /\ v # 4 THEN {ConF("ipv4.version", v), ConF("ip.version", v)} ELSE {}
      hfaults == (IF a < 20 THEN {LenF("Ipv4Header", 20, a, W(s))} ELSE {})
                 \cup vfault
                 \cup (IF a >= 1 /\ ihl < 5 THEN {ConF("ipv4.ihl", ihl)} ELSE {})
                 \cup (IF a >= 1 /\ ihl >= 5 /\ a < hl THEN {LenF("Ipv4Header", hl, a, W(s))} ELSE {})
  IN IF hfaults # {} THEN Faulty(s, s.pos, hfaults, {"IpHeader", "Ipv4Header"}) ELSE
  LET tl == U16(b, s.pos + 2)
      tooSmall == tl < hl            \* total length does not even cover the header
      tooBig == a < tl               \* total length announces more than is present
      pfaults == (IF tooSmall THEN {LenF("Ipv4Packet", hl, tl, {"Ipv4HeaderTotalLen"})} ELSE {})
                 \cup (IF tooBig THEN {LenF("Ipv4Packet", tl, a, W(s))} ELSE {})
  IN IF ~Lax(s) /\ pfaults # {} THEN Faulty(s, s.pos, pfaults, {}) ELSE
  LET fallback == tooSmall \/ tooBig                      \* LaxFallbackTotalLen: use the rest of the window
      inc2 == IF tooBig /\ ~tooSmall THEN TRUE ELSE FALSE
      lim2 == IF fallback THEN s.lim ELSE s.pos + tl
      psrc == IF fallback THEN W(s) ELSE {"Ipv4HeaderTotalLen"}
      src2 == IF fallback THEN s.src ELSE "Ipv4HeaderTotalLen"
      fb == B(b, s.pos + 6)
      frag == Bit(fb, 5) = 1 \/ (Bits(fb, 0, 5) * 256 + B(b, s.pos + 7)) # 0
      proto == B(b, s.pos + 9)
      p2 == s.pos + hl
      incs == IF Lax(s) THEN {inc2} ELSE {}
      hdr == Layer("ipv4", s.pos, hl, FldIpv4(b, s.pos, hl), NoPay)
      s2 == [s EXCEPT !.lim = lim2, !.src = src2, !.frag = frag, !.inc = inc2, !.first = FALSE]
  IN IF proto = IP_AUTH
     THEN LET r == Auth(b, p2, lim2 - p2, psrc \cup W(s)) IN
          IF r[1] = "err"
          THEN LET p == Pay("ip", p2, lim2 - p2, psrc, IP_AUTH, B2I(frag), incs) IN
               Faulty([s2 EXCEPT !.layers = Append(@, [hdr EXCEPT !.p = p]), !.pos = p2, !.ipn = IP_AUTH, !.pay = p],
                      p2, r[2], {"IpAuthHeader"})
          ELSE LET p == Pay("ip", p2 + r[2], lim2 - p2 - r[2], psrc, r[3], B2I(frag), incs) IN
               [s2 EXCEPT !.layers = Append(Append(@, [hdr EXCEPT !.p = p]),
                                            Layer("auth", p2, r[2], FldAuth(b, p2, r[2]), NoPay)),
                          !.pos = p2 + r[2], !.ipn = r[3], !.pay = p, !.next = NextAfterIp(s)]
     ELSE LET p == Pay("ip", p2, lim2 - p2, psrc, proto, B2I(frag), incs) IN
          [s2 EXCEPT !.layers = Append(@, [hdr EXCEPT !.p = p]), !.pos = p2, !.ipn = proto, !.pay = p, !.next = NextAfterIp(s)]

\* ---- IPv6 extension chain --------------------------------------------------
\* slots of the fixed struct (struct family, DocExtSlotFull)
SlotOf(nh, slots) ==
  CASE nh = IP_DST   -> IF "route" \in slots THEN "fdst" ELSE "dst"
    [] nh = IP_ROUTE -> "route"
    [] nh = IP_FRAG  -> "frag"
    [] nh = IP_AUTH  -> "auth"
    [] nh = IP_HBH   -> "hbh"

SlotCode(slot) == CASE slot = "hbh" -> 0 [] slot = "dst" -> 60 [] slot = "route" -> 43
                     [] slot = "frag" -> 44 [] slot = "auth" -> 51 [] slot = "fdst" -> 61

ExtStopLayer(nh) ==
  CASE nh = IP_HBH -> "Ipv6HopByHopHeader" [] nh = IP_DST -> "Ipv6DestOptionsHeader"
    [] nh = IP_ROUTE -> "Ipv6RouteHeader" [] nh = IP_FRAG -> "Ipv6FragHeader" [] nh = IP_AUTH -> "IpAuthHeader"

\* Walks the chain starting at p with next-header nh.  Returns
\*   [end, ipn, frag, items, faults, at, stop, full]
\* items: <<ip number, offset, length, next header, slot code>> per decoded extension header
RECURSIVE Exts(_, _, _, _, _, _, _, _, _, _)
Exts(b, p, lim, nh, first, frag, items, slots, fam, srcs) ==
  LET a == lim - p
      ok(q, n, fr, it, sl) == Exts(b, q, lim, n, FALSE, fr, it, sl, fam, srcs)
      res(faults, full) == [end |-> p, ipn |-> nh, frag |-> frag, items |-> items, faults |-> faults, at |-> p,
                            stop |-> IF faults = {} THEN "" ELSE ExtStopLayer(nh), full |-> full]
  IN
  IF nh \notin ExtNumbers THEN res({}, FALSE)
  ELSE IF nh = IP_HBH /\ ~first THEN res({ConF("ipv6ext.hbh", -1)}, FALSE)
  ELSE IF fam = "struct" /\ SlotOf(nh, slots) \in slots THEN res({}, TRUE)          \* DocExtSlotFull
  ELSE LET sl2 == slots \cup {SlotOf(nh, slots)} IN
  IF nh \in {IP_HBH, IP_DST, IP_ROUTE} THEN
       IF a < 8 THEN res({LenF("Ipv6ExtHeader", 8, a, srcs)}, FALSE)
       ELSE LET l == (B(b, p + 1) + 1) * 8 IN
            IF a < l THEN res({LenF("Ipv6ExtHeader", l, a, srcs)}, FALSE)
            ELSE ok(p + l, B(b, p), frag, Append(items, <<nh, p, l, B(b, p), SlotCode(SlotOf(nh, slots))>>), sl2)
  ELSE IF nh = IP_FRAG THEN
       IF a < 8 THEN res({LenF("Ipv6FragHeader", 8, a, srcs), LenF("Ipv6ExtHeader", 8, a, srcs)}, FALSE)
       ELSE LET f == (U16(b, p + 2) \div 8 # 0) \/ (B(b, p + 3) % 2 = 1) IN
            ok(p + 8, B(b, p), frag \/ f, Append(items, <<nh, p, 8, B(b, p), 44>>), sl2)
  ELSE \* IP_AUTH
       LET r == Auth(b, p, a, srcs) IN
       IF r[1] = "err" THEN res(r[2], FALSE)
       ELSE ok(p + r[2], r[3], frag, Append(items, <<nh, p, r[2], r[3], 51>>), sl2)

\* what the slice iterator reports: (ip number, offset, length, next header) in wire order
RECURSIVE Flat(_)
Flat(items) == IF items = <<>> THEN <<>> ELSE SubSeq(Head(items), 1, 4) \o Flat(Tail(items))
\* what the fixed struct holds: (slot code, -1, length, next header) in slot order
SlotOrder == <<0, 60, 43, 44, 51, 61>>
RECURSIVE FlatSlots(_, _)
FlatSlots(items, i) ==
  IF i > Len(SlotOrder) THEN <<>>
  ELSE LET hit == {j \in 1..Len(items) : items[j][5] = SlotOrder[i]} IN
       (IF hit = {} THEN <<>> ELSE LET it == items[CHOOSE j \in hit : TRUE] IN <<it[5], -1, it[3], it[4]>>)
       \o FlatSlots(items, i + 1)

DecIpv6(b, s, typed) ==
  LET a == A(s)
      v == Hi4(B(b, s.pos))
      vfault == IF a >= 1 /\ v # 6 THEN {ConF("ipv6.version", v), ConF("ip.version", v)} ELSE {}
      hfaults == (IF a < 40 THEN {LenF("Ipv6Header", 40, a, W(s))} ELSE {}) \cup vfault
  IN IF hfaults # {} THEN Faulty(s, s.pos, hfaults, {"IpHeader", "Ipv6Header"}) ELSE
  LET pl == U16(b, s.pos + 4)
      zero == pl = 0 /\ a > 40                     \* DocZeroIpv6Len: "up to the end of the enclosing data"
      tooBig == ~zero /\ a - 40 < pl
  IN IF ~Lax(s) /\ tooBig THEN Faulty(s, s.pos, {LenF("Ipv6Packet", 40 + pl, a, W(s))}, {}) ELSE
  LET fallback == zero \/ tooBig
      inc2 == tooBig
      lim2 == IF fallback THEN s.lim ELSE s.pos + 40 + pl
      psrc == IF fallback THEN W(s) ELSE {"Ipv6HeaderPayloadLen"}
      src2 == IF fallback THEN s.src ELSE "Ipv6HeaderPayloadLen"
      r == Exts(b, s.pos + 40, lim2, B(b, s.pos + 6), TRUE, FALSE, <<>>, {}, s.fam, psrc \cup W(s))
      incs == IF Lax(s) THEN {inc2} ELSE {}
      p == Pay("ip", r.end, lim2 - r.end, psrc, r.ipn, B2I(r.frag), incs)
      hdr == Layer("ipv6", s.pos, 40, FldIpv6(b, s.pos), p)
      exl == [Layer("exts", s.pos + 40, r.end - s.pos - 40, Flat(r.items), NoPay) EXCEPT !.sf = FlatSlots(r.items, 1)]
      s2 == [s EXCEPT !.layers = IF r.items # <<>> THEN Append(Append(@, hdr), exl) ELSE Append(@, hdr),
                      !.full = r.full, !.lim = lim2, !.src = src2, !.frag = r.frag, !.inc = inc2, !.first = FALSE,
                      !.pos = r.end, !.ipn = r.ipn, !.pay = p]
  IN IF r.faults # {} THEN Faulty(s2, r.at, r.faults, {r.stop})
     ELSE [s2 EXCEPT !.next = NextAfterIp(s)]

DecIp(b, s) ==
  IF A(s) = 0 THEN Faulty(s, s.pos, {LenF("IpHeader", 1, 0, W(s)), LenF("Ipv4Header", 20, 0, W(s)), LenF("Ipv6Header", 40, 0, W(s))}, {"IpHeader"})
  ELSE LET v == Hi4(B(b, s.pos)) IN
       IF v = 4 THEN DecIpv4(b, s, FALSE) ELSE IF v = 6 THEN DecIpv6(b, s, FALSE)
       ELSE Faulty(s, s.pos, {ConF("ip.version", v)}, {"IpHeader"})

\* ---------------------------------------------------------------------------
\* transport layer (the window is the IP payload; s.src is the field that bounds it)
TInc(s) == IF Lax(s) THEN {s.inc} ELSE {}

DecUdp(b, s) ==
  IF A(s) < 8 THEN Faulty(s, s.pos, {LenF("UdpHeader", 8, A(s), W(s))}, {"UdpHeader"}) ELSE
  LET l == U16(b, s.pos + 4)
      tooBig == A(s) < l
      tooSmall == l # 0 /\ l < 8
      faults == (IF tooBig THEN {LenF("UdpPayload", l, A(s), W(s))} ELSE {})
                \cup (IF tooSmall THEN {LenF("UdpHeader", 8, l, {"UdpHeaderLen"})} ELSE {})
  IN IF ~Lax(s) /\ faults # {} THEN Faulty(s, s.pos, faults, {}) ELSE
  LET tot == IF l = 0 \/ tooBig \/ tooSmall THEN A(s) ELSE l           \* DocZeroUdpLen, LaxFallbackUdpLen
      p == Pay("udp", s.pos + 8, tot - 8, {"any"}, -1, -1, IF Lax(s) THEN (IF tooBig THEN {s.inc, TRUE} ELSE {s.inc}) ELSE {})
  IN [s EXCEPT !.layers = Append(@, Layer("udp", s.pos, 8, FldUdp(b, s.pos), p)), !.pos = s.pos + 8, !.pay = p, !.next = "done"]

DecTcp(b, s) ==
  IF A(s) < 20 THEN Faulty(s, s.pos, {LenF("TcpHeader", 20, A(s), W(s))}
                                     \cup (IF A(s) >= 13 /\ Hi4(B(b, s.pos + 12)) < 5 THEN {ConF("tcp.doff", Hi4(B(b, s.pos + 12)))} ELSE {}), {"TcpHeader"}) ELSE
  LET doff == Hi4(B(b, s.pos + 12))  hl == 4 * doff
      faults == (IF doff < 5 THEN {ConF("tcp.doff", doff)} ELSE {})
                \cup (IF doff >= 5 /\ A(s) < hl THEN {LenF("TcpHeader", hl, A(s), W(s))} ELSE {})
  IN IF faults # {} THEN Faulty(s, s.pos, faults, {"TcpHeader"}) ELSE
  LET p == Pay("tcp", s.pos + hl, A(s) - hl, {"any"}, -1, -1, TInc(s)) IN
  [s EXCEPT !.layers = Append(@, Layer("tcp", s.pos, hl, FldTcp(b, s.pos, hl), p)), !.pos = s.pos + hl, !.pay = p, !.next = "done"]

DecIcmp4(b, s) ==
  IF A(s) < 8 THEN Faulty(s, s.pos, {LenF("Icmpv4", 8, A(s), W(s))}, {"Icmpv4"}) ELSE
  LET ts == Icmp4Ts(b, s.pos)
      hl == IF ts THEN 20 ELSE 8
      tsl == IF B(b, s.pos) = 13 THEN "Icmpv4Timestamp" ELSE "Icmpv4TimestampReply" IN
  \* RFC 792: a timestamp message is exactly 20 bytes
  \* stop layer: the ICMPv4 layer, under its general name or the name the length error itself carries
  IF ts /\ A(s) # 20 THEN Faulty(s, s.pos, {LenF(tsl, 20, A(s), W(s))}, {"Icmpv4", tsl}) ELSE
  LET p == Pay("icmp4", s.pos + hl, A(s) - hl, {"any"}, -1, -1, TInc(s)) IN
  [s EXCEPT !.layers = Append(@, Layer("icmp4", s.pos, hl, FldIcmp(b, s.pos), p)), !.pos = s.pos + hl, !.pay = p, !.next = "done"]

DecIcmp6(b, s) ==
  IF A(s) < 8 THEN Faulty(s, s.pos, {LenF("Icmpv6", 8, A(s), W(s))}, {"Icmpv6"}) ELSE
  LET p == Pay("icmp6", s.pos + 8, A(s) - 8, {"any"}, -1, -1, TInc(s)) IN
  [s EXCEPT !.layers = Append(@, Layer("icmp6", s.pos, 8, FldIcmp(b, s.pos), p)), !.pos = s.pos + 8, !.pay = p, !.next = "done"]

\* ---------------------------------------------------------------------------
\* Deviation of the code as built (known finding, see known_findings.json): the lax whole-packet
\* decoders choose the IP version by the version nibble and ignore what the ether type announced.
\* Only enabled when the id is in s.devs; the run then continues in the state the code is really in.
DevNibble(b, s) ==
  /\ "C05_LaxVersionByNibble" \in s.devs /\ Lax(s) /\ s.et \in {ET_IPV4, ET_IPV6} /\ A(s) >= 1
  /\ Hi4(B(b, s.pos)) # (IF s.et = ET_IPV4 THEN 4 ELSE 6)

LinkExtCap == 3       \* documented: at most three VLAN / MACsec headers are decoded

Step(b, s) ==
  CASE s.next = "eth"  -> DecEth(b, s)
    [] s.next = "sll"  -> DecSll(b, s)
    [] s.next = "ip"   -> DecIp(b, s)
    [] s.next = "ipv4" -> (IF A(s) = 0 THEN Faulty(s, s.pos, {LenF("Ipv4Header", 20, 0, W(s))}, {"IpHeader"}) ELSE DecIpv4(b, s, TRUE))
    [] s.next = "ipv6" -> (IF A(s) = 0 THEN Faulty(s, s.pos, {LenF("Ipv6Header", 40, 0, W(s))}, {"IpHeader"}) ELSE DecIpv6(b, s, TRUE))
    [] s.next = "ether" ->
         IF s.et \in ET_VLAN THEN (IF s.nlx = LinkExtCap THEN Done(s) ELSE DecVlan(b, s))
         ELSE IF s.et = ET_MACSEC THEN (IF s.nlx = LinkExtCap THEN Done(s) ELSE DecMacsec(b, s))
         ELSE IF s.et = ET_ARP THEN DecArp(b, s)
         ELSE IF DevNibble(b, s) THEN DecIp(b, [s EXCEPT !.hit = @ \cup {"C05_LaxVersionByNibble"}])
         ELSE IF s.et = ET_IPV4 THEN (IF A(s) = 0 THEN Faulty(s, s.pos, {LenF("Ipv4Header", 20, 0, W(s)), LenF("IpHeader", 1, 0, W(s))}, {"IpHeader"}) ELSE DecIpv4(b, s, TRUE))
         ELSE IF s.et = ET_IPV6 THEN (IF A(s) = 0 THEN Faulty(s, s.pos, {LenF("Ipv6Header", 40, 0, W(s)), LenF("IpHeader", 1, 0, W(s))}, {"IpHeader"}) ELSE DecIpv6(b, s, TRUE))
         ELSE Done(s)
    [] s.next = "transport" ->
         IF s.frag THEN Done(s)                       \* a fragment's payload is not a transport header
         ELSE IF s.ipn = IP_UDP THEN DecUdp(b, s)
         ELSE IF s.ipn = IP_TCP THEN DecTcp(b, s)
         ELSE IF s.ipn = IP_ICMP THEN DecIcmp4(b, s)
         ELSE IF s.ipn = IP_ICMP6 THEN DecIcmp6(b, s)
         ELSE Done(s)

RECURSIVE Run(_, _)
Run(b, s) == IF s.next = "done" THEN s ELSE Run(b, Step(b, s))

Final(b, m, fam, entry, et, upto) == Run(b, Init0(b, m, fam, entry, et, upto))
FinalDev(b, m, fam, entry, et, upto, devs) == Run(b, [Init0(b, m, fam, entry, et, upto) EXCEPT !.devs = devs])

\* ---------------------------------------------------------------------------
\* design-level invariants of any state of a run (C01, C02, C03)
InBounds(b, s) ==
  /\ 0 <= s.pos /\ s.pos <= s.lim /\ s.lim <= Len(b)
  /\ \A i \in 1..Len(s.layers) :
        LET L == s.layers[i] IN
        /\ 0 <= L.off /\ L.off + L.hlen <= Len(b)
        /\ (L.p.k # "none" => 0 <= L.p.off /\ L.p.len >= 0 /\ L.p.off + L.p.len <= Len(b))
  /\ (s.pay.k # "none" => 0 <= s.pay.off /\ s.pay.len >= 0 /\ s.pay.off + s.pay.len <= s.lim)

\* headers are adjacent: no gap and no overlap between consecutive decoded headers
Tiling(s) == \A i \in 1..(Len(s.layers) - 1) : s.layers[i].off + s.layers[i].hlen = s.layers[i + 1].off

\* the payload handed out never extends past the innermost applicable length field
PayloadWithinWindow(s) == s.pay.k # "none" => s.pay.off + s.pay.len <= s.lim

\* C02: the number of layers is bounded by the input, every step makes progress
LayerBound(b, s) == Len(s.layers) <= 7 + Len(b) \div 8

ErrShape(s) ==
  /\ (s.v = "err" => s.err.faults # {})
  /\ \A f \in s.err.faults : f.c = "len" => f.req # f.len
  /\ (s.m = "strict" => s.err.stops = {})

DesignInv(b, s) == InBounds(b, s) /\ Tiling(s) /\ PayloadWithinWindow(s) /\ LayerBound(b, s) /\ ErrShape(s)
====
