---- MODULE ExtChain ----
(* Bookkeeping of the IPv6 extension header struct (Ipv6Extensions): six optional headers
   hop-by-hop, destination options, routing, fragment, authentication, final destination options
   (the latter lives inside the routing slot), each with a next_header link.

   The crate walks these links in five separately written state machines (write_internal,
   next_header, set_next_headers, header_len, from_slice).  Here the walk is ONE machine:
     state  [next, out (slots not yet visited), routed, visited, status]
     action Follow: the link names a slot that is still outstanding -> visit it, follow its link
            Stop  : otherwise; Ok(next) iff nothing is outstanding, else the set of admissible errors.
   A configuration  c  is a record slot -> -1 (absent) or the value of its next_header link. *)
EXTENDS Integers, Sequences, FiniteSets, TLC

HBH == 0  ROUTE == 43  FRAG == 44  AUTH == 51  DST == 60
ExtNums == {HBH, ROUTE, FRAG, AUTH, DST}
Slots == <<"hbh", "dst", "route", "frag", "auth", "fdst">>       \* RFC 8200 order
SlotSet == {"hbh", "dst", "route", "frag", "auth", "fdst"}
NumOf(slot) == CASE slot = "hbh" -> HBH [] slot = "dst" -> DST [] slot = "route" -> ROUTE
                 [] slot = "frag" -> FRAG [] slot = "auth" -> AUTH [] slot = "fdst" -> DST

Present(c) == {s \in SlotSet : c[s] # -1}
WellFormedCfg(c) == c.fdst # -1 => c.route # -1          \* the final destination options live inside the routing slot

\* which slot does the link value `n` select in walk state w ?  ("" = none)
Select(w, n) ==
  CASE n = HBH   -> IF w.first /\ "hbh" \in w.out THEN "hbh" ELSE ""       \* only as the very first header
    [] n = DST   -> IF w.routed THEN (IF "fdst" \in w.out THEN "fdst" ELSE "") ELSE (IF "dst" \in w.out THEN "dst" ELSE "")
    [] n = ROUTE -> IF "route" \in w.out THEN "route" ELSE ""
    [] n = FRAG  -> IF "frag" \in w.out THEN "frag" ELSE ""
    [] n = AUTH  -> IF "auth" \in w.out THEN "auth" ELSE ""
    [] OTHER     -> ""

Walk0(c, first) == [next |-> first, out |-> Present(c), routed |-> FALSE, visited |-> <<>>, first |-> TRUE, status |-> "run", errs |-> {}]

WalkStep(c, w) ==
  LET s == Select(w, w.next) IN
  IF s # ""
  THEN [w EXCEPT !.next = c[s], !.out = @ \ {s}, !.routed = @ \/ s = "route", !.visited = Append(@, s), !.first = FALSE]     \* Follow
  ELSE \* Stop
       IF w.out = {} THEN [w EXCEPT !.status = "ok"]
       ELSE [w EXCEPT !.status = "err",
                      !.errs = {<<"ExtNotReferenced", NumOf(x)>> : x \in w.out}
                               \cup (IF w.next = HBH /\ "hbh" \in w.out THEN {<<"HopByHopNotAtStart", -1>>} ELSE {})]

RECURSIVE WalkRun(_, _)
WalkRun(c, w) == IF w.status # "run" THEN w ELSE WalkRun(c, WalkStep(c, w))
Walk(c, first) == WalkRun(c, Walk0(c, first))

\* set_next_headers(last): links assigned backwards in RFC 8200 order; returns <<configuration, first>>
RECURSIVE SetFrom(_, _, _)
SetFrom(c, i, next) ==
  IF i = 0 THEN <<c, next>>
  ELSE LET s == Slots[i] IN
       IF c[s] # -1 THEN SetFrom([c EXCEPT ![s] = next], i - 1, NumOf(s)) ELSE SetFrom(c, i - 1, next)
SetNextHeaders(c, last) == SetFrom(c, 6, last)

\* header lengths are irrelevant for the bookkeeping: every header of slot s has length HL[s]
TotalLen(c, HL) == LET P == Present(c) IN
  (IF "hbh" \in P THEN HL.hbh ELSE 0) + (IF "dst" \in P THEN HL.dst ELSE 0) + (IF "route" \in P THEN HL.route ELSE 0)
  + (IF "frag" \in P THEN HL.frag ELSE 0) + (IF "auth" \in P THEN HL.auth ELSE 0) + (IF "fdst" \in P THEN HL.fdst ELSE 0)

\* decoding the written chain (struct mode, see Decoder!Exts / DocExtSlotFull): the sequence of visited slots is
\* what is on the wire; the decoder assigns wire headers to slots by kind and position
RECURSIVE DecodeWire(_, _, _, _, _)
DecodeWire(wire, i, nh, got, routed) ==      \* wire: sequence of <<number, next>>; returns <<slots found, final next header>>
  IF i > Len(wire) \/ nh \notin ExtNums THEN <<got, nh>>
  ELSE LET slot == CASE nh = HBH -> (IF i = 1 THEN "hbh" ELSE "hbh!")
                     [] nh = DST -> (IF routed THEN "fdst" ELSE "dst")
                     [] nh = ROUTE -> "route" [] nh = FRAG -> "frag" [] nh = AUTH -> "auth"
       IN IF slot = "hbh!" \/ slot \in DOMAIN got THEN <<got, nh>>             \* error resp. slot already full: stop
          ELSE DecodeWire(wire, i + 1, wire[i][2], [x \in DOMAIN got \cup {slot} |-> IF x = slot THEN wire[i][2] ELSE got[x]],
                          routed \/ slot = "route")
====
