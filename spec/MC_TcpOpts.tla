---- MODULE MC_TcpOpts ----
(* Enumerated input space of the TCP option machines:
   raw areas   = every truncation of every sequence of up to MaxTokens tokens (well formed options of all six
                 kinds incl. all four SACK sizes, END, malformed size bytes, unknown kinds) plus all short strings
                 over the control alphabet;
   elem lists  = all lists of up to MaxElems elements over the nine element shapes, plus lists that cross the
                 40 byte limit by every margin.
   Every input is an initial state; the invariants are the properties of TcpOpts.tla. *)
EXTENDS TcpOpts, Json

CONSTANTS MaxTokens, MaxElems

P(n, s) == [i \in 1..n |-> (s + 17 * i) % 256]
Valid == { <<NOOP>>, <<MSS, 4>> \o P(2, 1), <<WS, 3, 7>>, <<SACKP, 2>>, <<TS, 10>> \o P(8, 3),
           <<SACK, 10>> \o P(8, 5), <<SACK, 18>> \o P(16, 6), <<SACK, 26>> \o P(24, 7), <<SACK, 34>> \o P(32, 8) }
Odd == { <<END>>, <<MSS, 3, 1, 2>>, <<MSS, 5, 1, 2, 3>>, <<WS, 2, 1>>, <<WS, 4, 1, 2>>, <<SACKP, 3, 0>>, <<SACKP, 0>>, <<TS, 9>> \o P(8, 3),
         <<SACK, 9>> \o P(8, 5), <<SACK, 11>> \o P(9, 5), <<SACK, 17>> \o P(16, 5), <<SACK, 35>> \o P(33, 5), <<SACK, 2>>,
         <<WS, 200, 7>>, <<MSS, 77, 1, 2>>, <<TS, 255>> \o P(8, 3), <<SACKP, 200>>, <<MSS, 0>>, <<WS, 0, 1>>, <<SACK, 200>> \o P(8, 5),
         <<SACK, 14>> \o P(12, 5), <<SACK, 22>> \o P(20, 5), <<SACK, 30>> \o P(28, 5), <<SACK, 6>> \o P(4, 5), <<SACK, 12>> \o P(10, 5), <<9, 4, 0, 0>>, <<255>>, <<6, 1>> }
Tokens == Valid \cup Odd
RECURSIVE Cat(_)
Cat(ts) == IF ts = <<>> THEN <<>> ELSE Head(ts) \o Cat(Tail(ts))
\* sequences of three tokens only over a core alphabet (all well formed options + one malformed form per failure class): the full cube of
\* 37 tokens x every truncation is a million areas that TLC has to build and deduplicate in one thread
Core == Valid \cup { <<END>>, <<MSS, 3, 1, 2>>, <<WS, 2, 1>>, <<SACKP, 3, 0>>, <<TS, 9>> \o P(8, 3), <<SACK, 9>> \o P(8, 5), <<SACK, 2>>, <<255>>, <<6, 1>> }
TokenSeqs == UNION {[1..n -> Tokens] : n \in 0..(IF MaxTokens > 2 THEN 2 ELSE MaxTokens)} \cup (IF MaxTokens > 2 THEN [1..3 -> Core] ELSE {})
Alphabet == {0, 1, 2, 3, 4, 5, 8, 9, 10, 18, 34, 255}
Areas == UNION {{SubSeq(Cat(t), 1, c) : c \in 0..Len(Cat(t))} : t \in {t \in TokenSeqs : Len(Cat(t)) <= 44}}
         \cup UNION {[1..n -> Alphabet] : n \in 0..3}

Shapes == { <<NOOP, <<>>>>, <<MSS, <<255, 254>>>>, <<WS, <<14>>>>, <<SACKP, <<>>>>, <<TS, P(8, 200)>>,
            <<SACK, P(8, 50)>>, <<SACK, P(16, 60)>>, <<SACK, P(24, 70)>>, <<SACK, P(32, 80)>> }
Lists == UNION {[1..n -> Shapes] : n \in 0..MaxElems}
         \* crossing the limit: k NOOPs behind three timestamps (30 bytes) and behind a maximal SACK (34 bytes)
         \cup {[i \in 1..(3 + k) |-> IF i <= 3 THEN <<TS, P(8, 9)>> ELSE <<NOOP, <<>>>>] : k \in 0..13}
         \cup {[i \in 1..(1 + k) |-> IF i = 1 THEN <<SACK, P(32, 1)>> ELSE <<MSS, <<0, 0>>>>] : k \in 0..3}
         \cup {[i \in 1..k |-> <<WS, <<i>>>>] : k \in 12..15}
         \* more elements than bytes fit: the required size is a number of bytes, not of elements
         \cup {[i \in 1..k |-> <<NOOP, <<>>>>] : k \in {39, 40, 41, 42, 50}}
         \cup {[i \in 1..(1 + k) |-> IF i = 1 THEN <<MSS, <<5, 180>>>> ELSE <<NOOP, <<>>>>] : k \in {36, 37, 40, 41}}

VARIABLES kind, area, elems
vars == <<kind, area, elems>>
Init == \/ kind = "raw" /\ area \in Areas /\ elems = <<>>
        \/ kind = "elems" /\ elems \in Lists /\ area = <<>>
Next == FALSE /\ UNCHANGED vars
Spec == Init /\ [][Next]_vars

RawProps == kind = "raw" => Tiling(area) /\ Bounded(area) /\ StaysDead(area)
ElemProps == kind = "elems" => (\A i \in 1..Len(elems) : WellFormedElem(elems[i])) /\ Fits(elems)
                               /\ (Required(elems) <= MaxLen => Tiling(Encode(elems)))
Emit == PrintT(<<"OPTS", ToJson([kind |-> kind, bytes |-> area, elems |-> [i \in 1..Len(elems) |-> <<elems[i][1], elems[i][2]>>]])>>)
====
