---- MODULE MC_ExtChain ----
(* All configurations of the extension struct within the link alphabet V: each slot absent or
   linking to a value of V, every first-header value of V.  The walk runs as a machine (one
   WalkStep per TLC step); the invariants relate the walkers on EVERY configuration:
     Total, NoSilentDrop, SetThenWalk (RFC 8200 order), DecodeInverse, BytesAnnounced.
   Emit prints one CONFIG line per configuration for the spec -> impl replay. *)
EXTENDS ExtChain, Json

CONSTANTS V,          \* link alphabet, e.g. {0, 60, 43, 44, 51, 17}
          MaxPresent  \* only configurations with at most this many headers (6 = all)

Opt == V \cup {-1}
Configs == {c \in [SlotSet -> Opt] : WellFormedCfg(c) /\ Cardinality(Present(c)) <= MaxPresent}

VARIABLES c, first, w
vars == <<c, first, w>>

Init == c \in Configs /\ first \in V /\ w = Walk0(c, first)
Next == w.status = "run" /\ w' = WalkStep(c, w) /\ UNCHANGED <<c, first>>
Spec == Init /\ [][Next]_vars

Done == w.status # "run"
\* every configuration ends in Ok or Err (and within 7 steps): no state without successor except final ones
Total == Len(w.visited) <= 6 /\ (Done => w.status \in {"ok", "err"}) /\ (w.status = "err" => w.errs # {})
\* success means that every present header was visited exactly once
NoSilentDrop == w.status = "ok" => {w.visited[i] : i \in 1..Len(w.visited)} = Present(c) /\ Len(w.visited) = Cardinality(Present(c))
\* the machine agrees with the closed form
Closed == Done => Walk(c, first).status = w.status /\ Walk(c, first).next = w.next

\* after set_next_headers(n), n not an extension number: walk from the returned first header visits the
\* present headers in RFC 8200 order and ends at n
RfcOrder(P) == SelectSeq(Slots, LAMBDA s : s \in P)
SetThenWalk ==
  Done => \A n \in V \ ExtNums :
             LET r == SetNextHeaders(c, n)  x == Walk(r[1], r[2]) IN
             x.status = "ok" /\ x.next = n /\ x.visited = RfcOrder(Present(c))
\* decoding what a successful walk writes gives the same headers and the same final protocol
Wire == [i \in 1..Len(w.visited) |-> <<NumOf(w.visited[i]), c[w.visited[i]]>>]
DecodeInverse ==
  (w.status = "ok" /\ w.next \notin ExtNums) =>
     LET d == DecodeWire(Wire, 1, first, << >>, FALSE) IN
     d[2] = w.next /\ DOMAIN d[1] = Present(c) /\ \A s \in Present(c) : d[1][s] = c[s]

Lst(s) == IF s = {} THEN <<>> ELSE LET f == CHOOSE f \in [1..Cardinality(s) -> s] : \A i, j \in 1..Cardinality(s) : i # j => f[i] # f[j] IN f
Emit == (Done /\ Len(w.visited) >= 0) =>
          PrintT(<<"CONFIG", ToJson([hbh |-> c.hbh, dst |-> c.dst, route |-> c.route, frag |-> c.frag, auth |-> c.auth, fdst |-> c.fdst,
                                     first |-> first])>>)
====
