---- MODULE MC_Ctl ----
(* Input space of the control message views: all 65 536 (type, code) pairs of ICMPv4 and ICMPv6 (thorough; quick: all types x
   the codes around every table edge) x payload length classes; IGMP all types of interest x lengths 0..13, 16, 20;
   neighbour discovery option areas: every truncation of every sequence of up to MaxOpts option tokens;
   ARP field grid.  TLC checks the dispatch tables for totality / fall-back and the option machine for tiling. *)
EXTENDS Ctl, Json

CONSTANTS AllCodes, MaxOpts
P(n, s) == [i \in 1..n |-> (s + 13 * i) % 256]
Codes == IF AllCodes THEN 0..255 ELSE (0..17) \cup {127, 128, 254, 255}
Types4 == IF AllCodes THEN 0..255 ELSE (0..20) \cup {40, 42, 43, 128, 253, 255}
Types6 == IF AllCodes THEN 0..255 ELSE (0..6) \cup (125..162) \cup {200, 201, 255}

\* the input space is split by a seed (message family x type / first option token) so that TLC expands the seeds in parallel
\* rest-of-header patterns for the typed messages: all zeros, all ones, alternating, single bits at both ends of every byte
Pats == {<<0, 0, 0, 0>>, <<255, 255, 255, 255>>, <<165, 90, 165, 90>>, <<90, 165, 90, 165>>, <<128, 1, 128, 1>>, <<1, 128, 64, 2>>, <<0, 0, 255, 255>>, <<255, 255, 0, 0>>}
Icmp4Of(t) == UNION {{[kind |-> "icmp4", bytes |-> <<t, c, 18, 52>> \o P(n, t + c)] : n \in (IF t \in {13, 14} /\ c = 0 THEN {4, 15, 16, 17} ELSE {4, 9})}
                     \cup (IF Icmp4Kind(t, c) # "Unknown" /\ c <= 16
                           THEN {[kind |-> "icmp4", bytes |-> <<t, c, 18, 52>> \o pt \o (IF t \in {13, 14} THEN pt \o pt \o pt ELSE <<7>>)] : pt \in Pats} ELSE {})
                     : c \in Codes}
Icmp6Of(t) == UNION {{[kind |-> "icmp6", bytes |-> <<t, c, 18, 52>> \o P(n, t + 2 * c)]
                      : n \in (LET k == Icmp6Kind(t, c) IN IF k = "Unknown" THEN {4, 12} ELSE {4, 4 + NdFixed(k), 4 + NdFixed(k) + 8} \cup (IF NdFixed(k) > 0 THEN {3 + NdFixed(k)} ELSE {}))}
                     \cup (LET k == Icmp6Kind(t, c) IN IF k # "Unknown"
                           THEN {[kind |-> "icmp6", bytes |-> <<t, c, 18, 52>> \o pt \o P(NdFixed(k), 3)] : pt \in Pats} ELSE {})
                     : c \in Codes}

NdTokens == { <<1, 1>> \o P(6, 1), <<2, 2>> \o P(14, 2), <<3, 4>> \o P(30, 3), <<4, 1>> \o P(6, 4), <<4, 3>> \o P(22, 4), <<5, 1>> \o P(6, 5), <<6, 1>> \o P(6, 6),
              <<1, 0>> \o P(6, 1), <<5, 2>> \o P(14, 5), <<3, 1>> \o P(6, 3), <<3, 5>> \o P(38, 3), <<200, 32>> \o P(6, 9), <<9, 255>> }
RECURSIVE Cat(_)
Cat(ts) == IF ts = <<>> THEN <<>> ELSE Head(ts) \o Cat(Tail(ts))
\* all truncations of all token sequences that start with token `first`
NdAreasOf(first) == UNION {{SubSeq(first \o Cat(t), 1, c) : c \in 0..Len(first \o Cat(t))} : t \in UNION {[1..n -> NdTokens] : n \in 0..(MaxOpts - 1)}}
NdOf(first) == {[kind |-> "ndp", bytes |-> a] : a \in NdAreasOf(first)}
\* complete neighbour discovery messages: header + fixed part + option area
NdMsgCases == {[kind |-> "icmp6", bytes |-> <<ta[1], 0, 18, 52>> \o P(4 + NdFixed(Icmp6Kind(ta[1], 0)), ta[1]) \o ta[2]] : ta \in (133..137) \X
                 {<<>>, <<1, 1>> \o P(6, 1), <<1, 1>> \o P(6, 1) \o <<5, 1>> \o P(6, 5), <<3, 4>> \o P(30, 3), <<5, 0, 0, 0>>, <<4, 32, 1>>, <<3, 4>> \o P(20, 3)}}

IgmpCases == {[kind |-> "igmp", bytes |-> <<tn[1]>> \o P(tn[2] - 1, tn[1])] : tn \in {17, 18, 22, 23, 34, 0, 19, 255} \X ((1..14) \cup {16, 20})} \cup {[kind |-> "igmp", bytes |-> <<>>]}
GroupRecCases == {[kind |-> "grouprec", bytes |-> <<q[1], q[2]>> \o <<0, q[3]>> \o P(q[4], q[1])] : q \in {1, 4, 6, 9} \X {0, 1} \X {0, 2} \X {0, 3, 4, 12, 20}}
ArpCases == {[kind |-> "arp", bytes |-> <<0, q[1], q[2] \div 256, q[2] % 256, q[3], q[4], 0, 2>> \o P(2 * q[3] + 2 * q[4], 7)] : q \in {1, 6} \X {2048, 34525} \X {6, 8} \X {4, 16}}

Seeds == {<<"icmp4", t>> : t \in Types4} \cup {<<"icmp6", t>> : t \in Types6} \cup {<<"ndp", tok>> : tok \in NdTokens} \cup {<<"rest", 0>>}
CasesOf(sd) == CASE sd[1] = "icmp4" -> Icmp4Of(sd[2]) [] sd[1] = "icmp6" -> Icmp6Of(sd[2]) [] sd[1] = "ndp" -> NdOf(sd[2])
                 [] OTHER -> NdMsgCases \cup IgmpCases \cup GroupRecCases \cup ArpCases \cup {[kind |-> "ndp", bytes |-> <<>>]}
None == [kind |-> "none", bytes |-> <<>>]

VARIABLES seed, x
Init == seed \in Seeds /\ x = None
Next == x = None /\ x' \in CasesOf(seed) /\ UNCHANGED seed
Spec == Init /\ [][Next]_<<seed, x>>

\* every (type, code) has exactly one kind; unassigned pairs fall back to Unknown; normalisation keeps type, code, checksum
UnknownFallback ==
  /\ (x.kind = "icmp4" => LET b == x.bytes IN Icmp4Kind(b[1], b[2]) # "" /\ (Len(b) >= Icmp4HdrLen(b[1], b[2]) => Sub(Norm4(b), 0, 4) = Sub(b, 0, 4) /\ Len(Norm4(b)) = Icmp4HdrLen(b[1], b[2])))
  /\ (x.kind = "icmp6" => LET b == x.bytes IN Len(Norm6(b)) = 8 /\ Sub(Norm6(b), 0, 4) = Sub(b, 0, 4) /\ (Icmp6Kind(b[1], b[2]) = "Unknown" => Norm6(b) = Sub(b, 0, 8)))
\* the options handed out tile the area without gap or overlap up to the first rejected option
RECURSIVE Walk(_, _, _)
Walk(it, used, fuel) == IF fuel = 0 THEN -1 ELSE LET r == NdNext(it) IN
                        IF r[1][1] = "item" THEN Walk(r[2], used + Len(r[1][3]), fuel - 1) ELSE used
OptionTiling == x.kind = "ndp" => LET u == Walk([rest |-> x.bytes, dead |-> FALSE], 0, 64) IN u >= 0 /\ u <= Len(x.bytes) /\ u % 8 = 0
Emit == x = None \/ PrintT(<<"CTL", ToJson(x)>>)
====
