---- MODULE TcpOpts ----
(* TCP option area (RFC 9293 3.1, RFC 7323, RFC 2018): encoder of element lists and the option iterator
   as a machine.

   Iterator state  [rest, dead]:  NextOpt yields  <<"item", kind, payload bytes>>  and consumes the option,
   or  <<"end">> (END option or nothing left),  or  <<"err", set of admissible error reports>>;  after END
   or an error the iterator is dead: rest is empty and every further call yields nothing. *)
EXTENDS Integers, Sequences, FiniteSets, TLC

END == 0  NOOP == 1  MSS == 2  WS == 3  SACKP == 4  SACK == 5  TS == 8
MaxLen == 40
SackLens == {10, 18, 26, 34}

\* fixed total length of an option kind (0: variable / not a known kind)
FixLen(k) == CASE k = MSS -> 4 [] k = WS -> 3 [] k = SACKP -> 2 [] k = TS -> 10 [] OTHER -> 0

Sub(b, off, n) == SubSeq(b, off + 1, off + n)

\* ---- iterator ----
\* errors the property admits for the option at the head of `rest`: the real kind, size and remaining length
Errs(rest) ==
  LET k == rest[1]  n == Len(rest) IN
  IF k \in {MSS, WS, SACKP, TS} THEN
       (IF n < FixLen(k) THEN {<<"UnexpectedEndOfSlice", k, FixLen(k), n>>} ELSE {})
       \cup (IF n >= 2 /\ rest[2] # FixLen(k) THEN {<<"UnexpectedSize", k, rest[2], -1>>} ELSE {})
  ELSE IF k = SACK THEN
       (IF n < 2 THEN {<<"UnexpectedEndOfSlice", k, 2, n>>}
        ELSE IF rest[2] \notin SackLens THEN {<<"UnexpectedSize", k, rest[2], -1>>}
        ELSE IF n < rest[2] THEN {<<"UnexpectedEndOfSlice", k, rest[2], n>>} ELSE {})
  ELSE IF k \notin {END, NOOP} THEN {<<"UnknownId", k, -1, -1>>}
  ELSE {}

\* returns <<result, new iterator state>>
NextOpt(it) ==
  IF it.rest = <<>> THEN <<<<"none">>, it>>
  ELSE LET r == it.rest  k == r[1] IN
       IF k = END THEN <<<<"none">>, [rest |-> <<>>, dead |-> TRUE]>>
       ELSE IF k = NOOP THEN <<<<"item", NOOP, <<>>>>, [it EXCEPT !.rest = Tail(r)]>>
       ELSE IF Errs(r) # {} THEN <<<<"err", Errs(r)>>, [rest |-> <<>>, dead |-> TRUE]>>
       ELSE LET l == IF k = SACK THEN r[2] ELSE FixLen(k) IN
            <<<<"item", k, Sub(r, 2, l - 2)>>, [it EXCEPT !.rest = Sub(r, l, Len(r) - l)]>>

Iter0(area) == [rest |-> area, dead |-> FALSE]

\* complete iteration: sequence of <<result, remaining length after the call>> until the first "none"
RECURSIVE IterAll(_, _)
IterAll(it, fuel) ==
  IF fuel = 0 THEN <<<<<<"FUEL">>, -1>>>>
  ELSE LET x == NextOpt(it) IN
       IF x[1][1] = "none" THEN <<<<x[1], Len(x[2].rest)>>>>
       ELSE <<<<x[1], Len(x[2].rest)>>>> \o IterAll(x[2], fuel - 1)

\* ---- encoder ----
\* an element is <<kind, payload bytes>> (SACK: 8, 16, 24 or 32 payload bytes)
ElemLen(e) == IF e[1] = NOOP THEN 1 ELSE 2 + Len(e[2])
EncodeElem(e) == IF e[1] = NOOP THEN <<NOOP>> ELSE <<e[1], 2 + Len(e[2])>> \o e[2]
RECURSIVE Required(_)
Required(l) == IF l = <<>> THEN 0 ELSE ElemLen(Head(l)) + Required(Tail(l))
RECURSIVE EncodeRaw(_)
EncodeRaw(l) == IF l = <<>> THEN <<>> ELSE EncodeElem(Head(l)) \o EncodeRaw(Tail(l))
PadLen(n) == IF n % 4 = 0 THEN n ELSE n + 4 - (n % 4)
Encode(l) == LET raw == EncodeRaw(l) IN raw \o [i \in 1..(PadLen(Len(raw)) - Len(raw)) |-> END]

WellFormedElem(e) ==
  CASE e[1] = NOOP -> e[2] = <<>> [] e[1] = MSS -> Len(e[2]) = 2 [] e[1] = WS -> Len(e[2]) = 1 [] e[1] = SACKP -> e[2] = <<>>
    [] e[1] = SACK -> Len(e[2]) \in {8, 16, 24, 32} [] e[1] = TS -> Len(e[2]) = 8 [] OTHER -> FALSE

\* ---- properties of one raw area (C13, second sentence) ----
Items(steps) == SelectSeq(steps, LAMBDA s : s[1][1] = "item")
RECURSIVE SumLens(_)
SumLens(items) == IF items = <<>> THEN 0 ELSE ElemLen(<<Head(items)[1][2], Head(items)[1][3]>>) + SumLens(Tail(items))
\* the yielded elements exactly tile a prefix of the area
Tiling(area) ==
  LET st == IterAll(Iter0(area), 64)  its == Items(st) IN
  EncodeRaw([i \in 1..Len(its) |-> <<its[i][1][2], its[i][1][3]>>]) = Sub(area, 0, SumLens(its))
\* no more items than bytes; at most one error, and it is the last thing before the end
Bounded(area) ==
  LET st == IterAll(Iter0(area), 64) IN
  /\ Len(st) <= Len(area) + 1 /\ st[Len(st)][1][1] = "none"
  /\ \A i \in 1..Len(st) : st[i][1][1] = "err" => i = Len(st) - 1 /\ st[i][2] = 0
\* once dead, always dead
StaysDead(area) ==
  LET RECURSIVE Go(_, _)
      Go(it, fuel) == IF fuel = 0 THEN TRUE
                      ELSE LET x == NextOpt(it) IN
                           /\ (it.dead => x[1][1] = "none" /\ x[2] = it)
                           /\ (x[1][1] \in {"err"} => x[2].dead /\ x[2].rest = <<>>)
                           /\ Go(x[2], fuel - 1)
  IN Go(Iter0(area), Len(area) + 3)

\* ---- properties of one element list (C13, first sentence) ----
Fits(l) ==
  Required(l) <= MaxLen =>
    LET enc == Encode(l)  st == IterAll(Iter0(enc), 64)  its == Items(st) IN
    /\ Len(enc) % 4 = 0 /\ Len(enc) = PadLen(Required(l)) /\ Len(enc) <= MaxLen
    /\ [i \in 1..Len(its) |-> <<its[i][1][2], its[i][1][3]>>] = l          \* the same elements ...
    /\ \A i \in 1..Len(st) : st[i][1][1] # "err"                            \* ... no error ...
    /\ \A j \in (Required(l) + 1)..Len(enc) : enc[j] = END                  \* ... followed only by END padding
====
