---- MODULE MC_Builder ----
(* All typestate paths of the builder (each builder method = one TLC step) with the parameter sets below; the final
   Write step draws the payload length from small values and from the exact limits of the path (MaxPayload - 1, MaxPayload,
   MaxPayload + 1).  Invariants on the machine: the typestate never allows a transport without a network layer, a
   VLAN tag without Ethernet II, ...; Emit prints every complete path as a replay case. *)
EXTENDS Builder, Json

CONSTANT Wide       \* TRUE: full product of the dimensions, FALSE: star design

VARIABLES state, c
vars == <<state, c>>
Init == state = "start" /\ c = Cfg0

Ip6ExtSets == {<<>>, <<"hbh">>, <<"dst">>, <<"route">>, <<"frag">>, <<"auth">>, <<"route", "fdst">>, <<"hbh", "dst", "route", "frag", "auth", "fdst">>, <<"dst", "frag">>, <<"hbh", "auth">>}
SmallLens == {0, 1, 2, 3, 7, 8, 9, 13, 64}     \* 13 = one 8 byte limb + one 4 byte limb + odd tail; the driver fills it with carry-critical words

Link == \/ state = "start" /\ state' = "eth" /\ c' = [c EXCEPT !.link = "eth"]
        \/ state = "start" /\ state' = "sll" /\ c' = [c EXCEPT !.link = "sll"]
Vlan == state = "eth" /\ state' = "vlan" /\ \E v \in {1, 2, 3, 4} : c' = [c EXCEPT !.vlan = v]     \* single_vlan, double_vlan, vlan(Single), vlan(Double)
Net == /\ state \in {"start", "eth", "sll", "vlan"}
       /\ \/ \E n \in {"ipv4", "ipv6"} : c' = [c EXCEPT !.net = n] /\ state' = "ip"
          \/ \E o \in {0, 8, 40}, a \in {0, 1} : c' = [c EXCEPT !.net = "ip4", !.opts = o, !.auth = a] /\ state' = "ip"
          \/ \E x \in Ip6ExtSets : c' = [c EXCEPT !.net = "ip6", !.exts = x] /\ state' = "ip"
          \/ state # "start" /\ c' = [c EXCEPT !.net = "arp"] /\ state' = "arp"
Transport == /\ state = "ip"
             /\ \/ c' = [c EXCEPT !.tr = "udp"] /\ state' = "udp"
                \/ \E f \in {0, 511, 2, 16, 18, 32, 256, 1, 4, 8, 64, 128}, o \in {0, 12, 28, 40} : c' = [c EXCEPT !.tr = "tcp", !.tcp_flags = f, !.tcp_opts = o] /\ state' = "tcp"
                \/ c' = [c EXCEPT !.tr = "tcphdr"] /\ state' = "tcp"
                \/ \E t \in {"icmp4echo", "icmp4reply", "icmp4raw", "icmp4typed"} : c' = [c EXCEPT !.tr = t] /\ state' = "icmp4"
                \/ \E t \in {"icmp6echo", "icmp6reply", "icmp6raw", "icmp6typed"} : c' = [c EXCEPT !.tr = t] /\ state' = "icmp6"
Write == \/ /\ state \in {"udp", "tcp", "icmp4", "icmp6"}
            /\ \E p \in SmallLens \cup {x \in {MaxPayload(c) - 1, MaxPayload(c), MaxPayload(c) + 1} : x >= 0} : c' = [c EXCEPT !.plen = p]
            /\ state' = "written"
         \/ /\ state = "ip"          \* raw payload behind the IP headers, announced as protocol `last`
            /\ \E l \in {253, 59, 0}, p \in {0, 5, 64} \cup {x \in {MaxPayload([c EXCEPT !.tr = "raw"]), MaxPayload([c EXCEPT !.tr = "raw"]) + 1} : x >= 0} :
                 c' = [c EXCEPT !.tr = "raw", !.last = l, !.plen = p]
            /\ state' = "written"
         \/ state = "arp" /\ c' = c /\ state' = "written"
\* star design: prune the product unless Wide
Keep(x) == Wide \/ x.vlan = 0 \/ x.net \in {"ipv4", "ipv6", "arp", ""} \/ (x.tr \in {"", "udp"})
Next == (Link \/ Vlan \/ Net \/ Transport \/ Write) /\ Keep(c')
Spec == Init /\ [][Next]_vars

\* typestate invariants
TypeState ==
  /\ (c.vlan # 0 => c.link = "eth")
  /\ (state \in {"udp", "tcp", "icmp4", "icmp6"} => c.net \in {"ipv4", "ipv6", "ip4", "ip6"})
  /\ (state = "written" => c.net # "" /\ Outcomes(c) # {} /\ Size(c) >= Len(Kinds(c)))
  /\ (c.net = "arp" => c.link # "none")
\* an encodable configuration announces a size that fits: every length field on the path can represent its part
SizeFits == (state = "written" /\ "ok" \in Outcomes(c) /\ c.net # "arp") =>
              (IF IsV4(c) THEN 20 + c.opts + ExtLen(c) + TrLen(c) + c.plen <= 65535 ELSE ExtLen(c) + TrLen(c) + c.plen <= 65535)
              /\ (c.tr = "udp" => 8 + c.plen <= 65535)
Emit == state = "written" => PrintT(<<"BUILD", ToJson(c)>>)
====
