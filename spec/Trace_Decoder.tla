---- MODULE Trace_Decoder ----
(* Trace validation for the decoder machine (impl -> spec).

   One trace event = one input byte string + the projected results of every decoding
   entry point that was run on it (or on a suffix of it: `skip`).  For every run the
   reference machine of Decoder.tla is evaluated with the run's parameters and compared
   with the observation; relations between runs of the same event (struct vs slice: C04,
   lax vs strict: C05, equivalent doors: C06) are evaluated on the observations.

   A mismatch never stops validation: it is collected as <<event id, api, tag>> in `bad`
   (or in `known` when it is explainable only by a deviation listed in KnownDev); api = index of the run, so one
   rejection leaves nothing unexamined. *)
EXTENDS Decoder, Json, IOUtils

CONSTANT KnownDev        \* set of deviation ids that are listed known findings

Rec == ndJsonDeserialize(IOEnv.TRACE)

\* ---------------------------------------------------------------------------
\* observation vs prediction
SrcOk(src, srcs) == "any" \in srcs \/ src = "any" \/ src \in srcs

PayMism(rp, op, tag) ==
  IF rp.k # op.k THEN {tag \o ".kind"}
  ELSE IF rp.k = "none" THEN {}
  ELSE (IF rp.len # op.len \/ (rp.off # op.off /\ ~(rp.len = 0 /\ op.off = -1)) THEN {tag \o ".range"} ELSE {})
       \cup (IF ~SrcOk(op.src, rp.srcs) THEN {tag \o ".src"} ELSE {})
       \cup (IF rp.num # op.num THEN {tag \o ".num"} ELSE {})
       \cup (IF rp.frag # op.frag THEN {tag \o ".frag"} ELSE {})
       \cup (IF rp.incs # {} /\ (op.inc = 1) \notin rp.incs THEN {tag \o ".inc"} ELSE {})

LayerMism(rl, ol, fam) ==
  IF rl.k # ol.k THEN {"layer.kind"}
  ELSE (IF fam = "slice" /\ rl.off # ol.off THEN {"layer.off"} ELSE {})
       \cup (IF rl.hlen # ol.hlen THEN {"layer.hlen"} ELSE {})
       \cup (IF (IF fam = "slice" THEN rl.f ELSE rl.sf) # ol.f THEN {"layer.fields." \o rl.k} ELSE {})
       \cup (IF fam = "slice" THEN PayMism(rl.p, ol.p, "layer.pay") ELSE {})

LayersMism(r, o, fam) ==
  IF Len(r.layers) # Len(o.layers) THEN {"layers.count"}
  ELSE UNION {LayerMism(r.layers[i], o.layers[i], fam) : i \in 1..Len(r.layers)}

\* does the observed error report describe the fault f (located at offset `at`)?
\* "ok", a deviation id, or "no"
FaultMatch(f, e, at) ==
  IF f.c = "len" THEN
     IF e.kind = "len" /\ e.layer = f.layer /\ e.req = f.req /\ e.len = f.len /\ e.off = at
     THEN (IF e.src \in f.srcs THEN "ok"
           ELSE IF f.layer = "MacsecPacket" /\ e.src = "MacsecShortLength" THEN "C07_MacsecSrc"
           ELSE IF f.layer = "Arp" /\ f.req > 8 /\ e.src = "ArpAddrLengths" THEN "C07_ArpSrc"
           ELSE "no")
     ELSE "no"
  ELSE IF e.kind = "con" /\ e.name = f.name /\ e.val = f.val THEN "ok" ELSE "no"

ErrMism(r, o) ==
  IF r.err.faults = {} THEN (IF o.err.kind # "none" THEN {"err.spurious"} ELSE {})
  ELSE IF o.err.kind = "none" THEN {"err.missing"}
  ELSE LET ms == {FaultMatch(f, o.err, r.err.at) : f \in r.err.faults} IN
       (IF "ok" \in ms THEN {}
        ELSE IF (ms \ {"no"}) \cap KnownDev # {} THEN {"KF:" \o d : d \in (ms \ {"no"}) \cap KnownDev}
        ELSE {"err.content"})
       \cup (IF r.v = "ok" /\ o.err.stop \notin r.err.stops THEN {"err.stoplayer"} ELSE {})

\* convenience accessors of the whole-packet results: functions of the layers the same result holds
Linkish(k) == k \in {"eth", "sll", "vlan", "macsec"}
ConvMism(o) ==
  IF o.conv.has = 0 THEN {} ELSE
  LET c == o.conv
      LL == SelectSeq(o.layers, LAMBDA y : Linkish(y.k))
      VL == SelectSeq(o.layers, LAMBDA y : y.k = "vlan")
      IL == SelectSeq(o.layers, LAMBDA y : y.k \in {"ipv4", "ipv6"})
      ids == [i \in 1..Len(VL) |-> VL[i].f[3]]
      other == \E i \in 1..Len(o.layers) : ~Linkish(o.layers[i].k)
      SameRange(p, q) == p.k = q.k /\ p.len = q.len /\ (p.off = q.off \/ p.len = 0) /\ p.num = q.num
  IN (IF c.has \in {1, 2} /\ c.vlan_ids # ids THEN {"conv.vlan_ids"} ELSE {})
     \cup (IF c.has \in {1, 2} /\ c.vlan # (IF Len(VL) = 0 THEN <<0, -1, -1>> ELSE IF Len(VL) = 1 THEN <<1, ids[1], -1>> ELSE <<2, ids[1], ids[2]>>) THEN {"conv.vlan"} ELSE {})
     \* IP boundary values (IpSlice, LaxIpSlice) and the header view IpHeadersSlice: functions of the IP layer of the same result
     \cup (IF c.has \in {4, 5} /\ IL # <<>> THEN
             LET ip == IL[1]  v4 == ip.k = "ipv4"
                 src == IF v4 THEN SubSeq(ip.f, 11, 14) ELSE SubSeq(ip.f, 8, 23)
                 dst == IF v4 THEN SubSeq(ip.f, 15, 18) ELSE SubSeq(ip.f, 24, 39)
                 hdrs == SelectSeq(o.layers, LAMBDA y : y.k \in {"ipv4", "ipv6", "auth", "exts"})
                 hl == LET RECURSIVE Sum(_) Sum(q) == IF q = <<>> THEN 0 ELSE Head(q).hlen + Sum(Tail(q)) IN Sum(hdrs)
             IN (IF ~SameRange(c.ipay, ip.p) THEN {"conv.ip.payload"} ELSE {})
                \cup (IF c.pin # ip.p.num THEN {"conv.ip.payload_ip_number"} ELSE {})
                \cup (IF c.frag # ip.p.frag THEN {"conv.ip.is_fragmenting_payload"} ELSE {})
                \cup (IF c.src # src \/ c.dst # dst THEN {"conv.ip.addresses"} ELSE {})
                \cup (IF c.has = 4 THEN
                        (IF c.hv # <<IF v4 THEN 4 ELSE 6, hl, ip.p.num, IF v4 THEN ip.f[9] ELSE ip.f[6], IF v4 THEN 1 ELSE 0, IF v4 THEN 0 ELSE 1>> THEN {"conv.ip.header_view"} ELSE {})
                        \cup (IF c.hsrc # src \/ c.hdst # dst THEN {"conv.ip.header_view_addresses"} ELSE {})
                        \cup (IF c.hslice # <<ip.off, ip.hlen>> THEN {"conv.ip.header_view_slice"} ELSE {})      \* slice(): the base header
                      ELSE {})
           ELSE {})
     \cup (IF c.has = 1 THEN
             \* ether_payload(): payload of the last link level layer, if it is announced by an ether type
             \* (behind a Linux SLL header the protocol type decides whether there is an ether type at all: not constrained here)
             (IF LL # <<>> /\ LL[Len(LL)].k # "sll" THEN LET p == LL[Len(LL)].p IN
                                IF p.k = "ether" THEN (IF ~SameRange(c.epay, p) \/ (p.inc \in {0, 1} /\ c.epay.inc # p.inc) THEN {"conv.ether_payload"} ELSE {})
                                                      \* its length source: a MACsec short length ANYWHERE in the stack of tags limited these bytes
                                                      \cup (IF c.epay.k = "ether" /\ c.epay.src # (IF \E i \in 1..Len(LL) : LL[i].k = "macsec" /\ LL[i].p.src = "MacsecShortLength"
                                                                                                  THEN "MacsecShortLength" ELSE "Slice")
                                                            THEN {"conv.ether_payload.len_source"} ELSE {})
                                ELSE (IF c.epay.k # "none" THEN {"conv.ether_payload"} ELSE {})
              ELSE {})
             \* ip_payload(): payload of the IP layer
             \cup (IF IL # <<>> THEN (IF ~SameRange(c.ipay, IL[1].p) \/ c.ipay.frag # IL[1].p.frag \/ (IL[1].p.inc \in {0, 1} /\ c.ipay.inc # IL[1].p.inc) THEN {"conv.ip_payload"} ELSE {})
                   ELSE (IF c.ipay.k # "none" THEN {"conv.ip_payload"} ELSE {}))
             \* payload_ether_type(): ether type behind the last link level header when nothing above it was decoded
             \cup (IF c.pet = -2 THEN {}
                   ELSE IF other THEN (IF c.pet # -1 THEN {"conv.payload_ether_type"} ELSE {})
                   ELSE IF LL # <<>> /\ LL[Len(LL)].k \in {"eth", "vlan", "macsec"}
                        THEN LET y == LL[Len(LL)]  et == IF y.k = "eth" THEN y.f[13] ELSE IF y.k = "vlan" THEN y.f[4] ELSE y.f[2] IN
                             (IF c.pet # et THEN {"conv.payload_ether_type"} ELSE {})
                   ELSE {})
             \cup (IF c.frag = -2 THEN {} ELSE IF c.frag # (IF IL # <<>> THEN IL[1].p.frag ELSE 0) THEN {"conv.is_ip_payload_fragmented"} ELSE {})
           ELSE {})

RunMism(r, o, fam) ==
  (IF o.v = "panic" THEN {"panic"} ELSE IF r.v # o.v THEN {"verdict"} ELSE {})
  \cup (IF o.oob # 0 THEN {"oob"} ELSE {})
  \cup (IF r.v = "ok" /\ o.v = "ok" THEN LayersMism(r, o, fam) \cup PayMism(r.pay, o.pay, "pay") \cup ConvMism(o) ELSE {})
  \* to_header() / to_packet() of a layer's slice holds the values its accessors report
  \cup (IF o.v = "ok" THEN {"c04.to_header." \o o.tohdr[i] : i \in 1..Len(o.tohdr)} ELSE {})
  \* the returned error converted by the conversions the crate offers (catch-all FromSliceError read back through its accessors): still the same report
  \cup (IF o.v = "panic" THEN {} ELSE {"c07.err_conversion." \o o.econv[i] : i \in 1..Len(o.econv)})
  \cup (IF o.v # "panic" /\ r.v = o.v THEN ErrMism(r, o) ELSE {})

\* ---------------------------------------------------------------------------
\* relations between two observations of the same event
SameRun(x, y) == x.entry = y.entry /\ x.skip = y.skip /\ x.upto = y.upto /\ x.et = y.et

\* C04: struct family agrees with the slice family (same mode, same door)
StructField(ol) == ol.f
PayAgree(p, q, tag) ==
  IF p.k # q.k THEN {tag \o ".kind"} ELSE IF p.k = "none" THEN {} ELSE
  (IF p.len # q.len \/ (p.off # q.off /\ p.len # 0) THEN {tag \o ".range"} ELSE {})
  \cup (IF p.num # q.num THEN {tag \o ".num"} ELSE {})
  \cup (IF p.frag # q.frag THEN {tag \o ".frag"} ELSE {})

\* slice-family fields of one layer converted to what the struct holds
AsStructF(ol) ==
  IF ol.k \in {"icmp4", "icmp6"} THEN SubSeq(ol.f, 1, 3) ELSE ol.f

StructAgree(os, oh) ==          \* os: slice-family observation, oh: struct-family observation
  IF os.v = "panic" \/ oh.v = "panic" THEN {}
  ELSE IF os.v # oh.v THEN {"c04.verdict"}
  ELSE IF os.v # "ok" THEN {}
  ELSE (IF Len(os.layers) # Len(oh.layers) THEN {"c04.layers.count"}
        ELSE UNION {LET a == os.layers[i]  h == oh.layers[i] IN
                    IF a.k # h.k THEN {"c04.layer.kind"}
                    ELSE (IF a.hlen # h.hlen THEN {"c04.layer.hlen." \o a.k} ELSE {})
                         \cup (IF a.k # "exts" /\ AsStructF(a) # h.f THEN {"c04.layer.fields." \o a.k} ELSE {})
                    : i \in 1..Len(os.layers)})
       \cup PayAgree(os.pay, oh.pay, "c04.pay")
       \cup (IF (os.err.kind = "none") # (oh.err.kind = "none") THEN {"c04.stop"} ELSE {})

\* C05 (a): strict accepted => lax returns the same and flags nothing
NoInc(o) == o.pay.inc # 1 /\ \A i \in 1..Len(o.layers) : o.layers[i].p.inc # 1
LaxAgree(os, ol, fam) ==        \* os: strict observation, ol: lax observation of the same door
  IF os.v # "ok" \/ ol.v = "panic" THEN {}
  ELSE IF ol.v # "ok" THEN {"c05.verdict"}
  ELSE (IF ol.err.kind # "none" THEN {"c05.stop_on_accepted"} ELSE {})
       \cup (IF ~NoInc(ol) THEN {"c05.incomplete_on_accepted"} ELSE {})
       \cup (IF Len(os.layers) # Len(ol.layers) THEN {"c05.layers.count"}
             ELSE UNION {LET a == os.layers[i]  h == ol.layers[i] IN
                         IF a.k # h.k \/ a.off # h.off \/ a.hlen # h.hlen \/ a.f # h.f THEN {"c05.layer." \o a.k}
                         ELSE IF fam = "slice" THEN PayAgree(a.p, h.p, "c05.layer.pay") ELSE {}
                         : i \in 1..Len(os.layers)})
       \cup PayAgree(os.pay, ol.pay, "c05.pay")

\* C06: version dispatching door vs version specific door on the same bytes
TypedAgree(od, ot) ==           \* od: dispatching (entry ip), ot: typed (entry ipv4 / ipv6) with matching nibble
  IF od.v = "panic" \/ ot.v = "panic" THEN {}
  ELSE IF od.v # ot.v THEN {"c06.typed.verdict"}
  ELSE IF od.v # "ok" THEN (IF od.err.kind = "len" /\ ot.err.kind = "len" /\ (od.err.off # ot.err.off \/ od.err.len # ot.err.len \/ od.err.src # ot.err.src)
                            THEN {"c06.typed.err"} ELSE {})
  ELSE (IF od.layers # ot.layers THEN {"c06.typed.layers"} ELSE {})
       \cup (IF od.pay # ot.pay THEN {"c06.typed.pay"} ELSE {})
       \cup (IF (od.err.kind = "none") # (ot.err.kind = "none") \/ od.err.stop # ot.err.stop
                \/ (od.err.kind = "len" /\ ot.err.kind = "len" /\ (od.err.src # ot.err.src \/ od.err.off # ot.err.off \/ od.err.len # ot.err.len)) THEN {"c06.typed.stop"} ELSE {})

\* C06: a door further out vs the door behind its first header(s): offsets shift by d
ShiftPay(p, d) == IF p.k = "none" \/ p.off < 0 THEN p ELSE [p EXCEPT !.off = @ + d]
ShiftLayer(L, d) == [L EXCEPT !.off = IF @ < 0 THEN @ ELSE @ + d, !.p = ShiftPay(@, d),
                              !.f = IF L.k = "exts" /\ L.off >= 0
                                    THEN [i \in 1..Len(@) |-> IF i % 4 = 2 THEN @[i] + d ELSE @[i]] ELSE @]
ShiftAgree(oo, oi, d, drop, lax) ==  \* oo: outer door (first `drop` layers belong to it), oi: inner door, d: offset
  IF oo.v = "panic" \/ oi.v = "panic" THEN {}
  \* lax: a fault in the inner door's first header is Err there, but a stop error behind the outer door's header
  ELSE IF lax /\ oi.v = "err" /\ oo.v = "ok" THEN (IF oo.err.kind = "none" THEN {"c06.shift.verdict"} ELSE {})
  ELSE IF oo.v # oi.v THEN {"c06.shift.verdict"}
  ELSE IF oo.v # "ok"
       THEN (IF oo.err.kind = "len" /\ oi.err.kind = "len" /\ (oo.err.off # oi.err.off + d \/ oo.err.len # oi.err.len \/ oo.err.layer # oi.err.layer)
             THEN {"c06.shift.err"} ELSE {})
  ELSE (IF Len(oo.layers) # Len(oi.layers) + drop THEN {"c06.shift.layers.count"}
        ELSE IF \E i \in 1..Len(oi.layers) : oo.layers[i + drop] # ShiftLayer(oi.layers[i], d) THEN {"c06.shift.layers"} ELSE {})
       \cup (IF oo.pay # ShiftPay(oi.pay, d) THEN {"c06.shift.pay"} ELSE {})
       \cup (IF oo.err.kind # oi.err.kind \/ oo.err.stop # oi.err.stop
                \/ (oo.err.kind = "len" /\ (oo.err.off # oi.err.off + d \/ oo.err.len # oi.err.len))
             THEN {"c06.shift.stop"} ELSE {})

Nib(b, skip) == IF Len(b) > skip THEN Hi4(B(b, skip)) ELSE -1

\* all relation mismatches of one event: set of <<run index, tag>>
RelMism(e) ==
  LET R == e.runs  n == Len(R) IN
  UNION {
    LET x == R[i]  y == R[j] IN
    \* C04: x slice family, y struct family, same mode and door; not when the struct stops early (DocExtSlotFull)
    (IF x.fam = "slice" /\ y.fam = "struct" /\ x.m = y.m /\ SameRun(x, y)
        /\ ~Final(Drop(e.bytes, y.skip), y.m, "struct", y.entry, y.et, y.upto).full
     THEN {<<j, t>> : t \in StructAgree(x.res, y.res)} ELSE {})
    \cup
    \* C05: x strict, y lax, same family and door
    (IF x.m = "strict" /\ y.m = "lax" /\ x.fam = y.fam /\ SameRun(x, y)
     THEN {<<j, t>> : t \in LaxAgree(x.res, y.res, x.fam)} ELSE {})
    \cup
    \* C06: dispatching vs typed IP door (same mode, family, slice), nibble matches the typed door
    (IF x.entry = "ip" /\ y.entry \in {"ipv4", "ipv6"} /\ x.upto = "ip" /\ y.upto = "ip" /\ x.m = y.m /\ x.fam = y.fam /\ x.skip = y.skip
        /\ Nib(e.bytes, x.skip) = (IF y.entry = "ipv4" THEN 4 ELSE 6)
     THEN {<<j, t>> : t \in TypedAgree(x.res, y.res)} ELSE {})
    \cup
    \* C06: Ethernet II door vs ether type door behind the 14 byte header
    (IF x.entry = "eth" /\ y.entry = "ether" /\ x.m = y.m /\ x.fam = y.fam /\ x.skip + 14 = y.skip /\ x.upto = y.upto
        /\ Len(e.bytes) >= x.skip + 14 /\ y.et = U16(e.bytes, x.skip + 12)
     THEN {<<j, t>> : t \in ShiftAgree(x.res, y.res, 14, 1, x.m = "lax")} ELSE {})
    \cup
    \* C06: IPv4/IPv6 ether type door vs IP door on the same bytes (nibble agrees with the ether type)
    (IF x.entry = "ether" /\ y.entry = "ip" /\ x.m = y.m /\ x.fam = y.fam /\ x.skip = y.skip /\ x.upto = "all" /\ y.upto = "all"
        /\ ((x.et = ET_IPV4 /\ Nib(e.bytes, x.skip) = 4) \/ (x.et = ET_IPV6 /\ Nib(e.bytes, x.skip) = 6))
     THEN {<<j, t>> : t \in ShiftAgree(x.res, y.res, 0, 0, x.m = "lax")} ELSE {})
    : i \in 1..n, j \in 1..n }

\* mismatches of every run against the reference: set of <<run index, tag>>
\* accessor sweep runs (all single-layer decoders, every accessor): no value prediction; the observable of
\* C01/C02 is "no sub-slice outside the input, same digest at both guard-page placements, no panic"
IsC02(n) == n \in {"c02.unbounded_iteration", "c02.iterator_methods_disagree"}
\* equality of decoded values depends on the location of the input / ignores contents (sweep:packet, per slice type)
EqTypes == {"Ethernet2Slice", "Ethernet2HeaderSlice", "LinuxSllSlice", "LinuxSllHeaderSlice", "SingleVlanSlice", "SingleVlanHeaderSlice", "MacsecSlice",
            "MacsecHeaderSlice", "ArpPacketSlice", "Ipv4Slice", "Ipv4HeaderSlice", "Ipv6Slice", "Ipv6HeaderSlice", "IpSlice", "LaxIpSlice", "IpAuthHeaderSlice",
            "Ipv6FragmentHeaderSlice", "Ipv6RawExtHeaderSlice", "UdpSlice", "UdpHeaderSlice", "TcpSlice", "TcpHeaderSlice", "Icmpv4Slice", "Icmpv6Slice",
            "SlicedPacket::from_ethernet", "SlicedPacket::from_ip", "LaxSlicedPacket::from_ethernet", "LaxSlicedPacket::from_ip"}
IsC01(n) == n \in {"c01.eq_depends_on_location:" \o t : t \in EqTypes} \cup {"c01.eq_ignores_contents:" \o t : t \in EqTypes}
SweepMism(x) == (IF x.res.v = "panic" THEN {"panic"} ELSE {}) \cup (IF x.res.oob # 0 THEN {"oob"} ELSE {}) \cup (IF x.pl # 1 THEN {"placement"} ELSE {})
                \* two doors to the same decoder (deprecated aliases, helper predicates) that did not give the same answer
                \* (names that start with c02. are totality violations found by the sweep itself: an iterator that does not stop)
                \cup (IF x.res.v = "panic" THEN {} ELSE {IF IsC02(x.res.conv.mism[i]) \/ IsC01(x.res.conv.mism[i]) THEN x.res.conv.mism[i] ELSE "c06.alias." \o x.res.conv.mism[i] : i \in 1..Len(x.res.conv.mism)})

RefMism(e) ==
  UNION { LET x == e.runs[i] IN
          IF x.m = "sweep" THEN {<<i, t>> : t \in SweepMism(x)} ELSE
          LET b == Drop(e.bytes, x.skip)
              r == FinalDev(b, x.m, x.fam, x.entry, x.et, x.upto, KnownDev)
          IN {<<i, t>> : t \in RunMism(r, x.res, x.fam) \cup (IF x.pl # 1 THEN {"placement"} ELSE {})
                                   \cup {"KF:" \o d : d \in r.hit}}
                 \cup (IF DesignInv(b, r) THEN {} ELSE {<<i, "SPEC.DesignInv">>})
          : i \in 1..Len(e.runs) }

VARIABLES l, bad, known
vars == <<l, bad, known>>

TraceInit == l = 1 /\ bad = {} /\ known = {}

IsKF(t) == t[2] \in {"KF:" \o d : d \in KnownDev}

TraceDecode ==
  /\ l <= Len(Rec)
  /\ Rec[l].ev = "decode"
  /\ LET e == Rec[l]
         ms == RefMism(e) \cup RelMism(e)
         kf == {t \in ms : IsKF(t)}
     IN /\ bad' = bad \cup {<<e.id, t[1], t[2]>> : t \in ms \ kf}
        /\ known' = known \cup {t[2] : t \in kf}
  /\ l' = l + 1

TraceNext == TraceDecode
TraceSpec == TraceInit /\ [][TraceNext]_vars

\* every line of the trace was consumed by a spec action
TraceAccepted == TLCGet("stats").diameter - 1 = Len(Rec)

\* printed once, in the last state
Report == (l = Len(Rec) + 1) =>
            /\ PrintT(<<"TRACE-RESULT", ToJson([events |-> Len(Rec), bad |-> bad, known |-> known])>>)
====
