---- MODULE Ctl ----
(* Typed views of control messages, transcribed from RFC 792 / 1122 / 1812 (ICMPv4), RFC 4443 / 4861 (ICMPv6, neighbour
   discovery), RFC 1112 / 2236 / 3376 / 9776 (IGMP), RFC 826 (ARP).

   - Icmp4Kind / Icmp6Kind: (type, code) -> message kind, "Unknown" for every unassigned pair;
   - Norm4 / Norm6: the header bytes a typed value stands for (bytes the format leaves unused are zero);
   - NdFixed: length of the fixed part of a neighbour discovery payload behind the 8 byte ICMPv6 header;
   - the NDP option iterator as a machine (NdNext), exactly like TcpOpts!NextOpt: item / end / admissible errors, dead after
     the first error; units of 8 bytes, zero units rejected, MTU = 1 unit, prefix information = 4 units;
   - IgmpKind by type and message length;  ARP Ethernet/IPv4 view conditions. *)
EXTENDS Integers, Sequences, FiniteSets, TLC

Sub(b, off, n) == SubSeq(b, off + 1, off + n)
Z(n) == [i \in 1..n |-> 0]

\* ---- ICMPv4 ----
Icmp4Kind(t, c) ==
  CASE t = 0 /\ c = 0 -> "EchoReply" [] t = 3 /\ c <= 15 -> "DestinationUnreachable" [] t = 5 /\ c <= 3 -> "Redirect"
    [] t = 8 /\ c = 0 -> "EchoRequest" [] t = 11 /\ c <= 1 -> "TimeExceeded" [] t = 12 /\ c <= 2 -> "ParameterProblem"
    [] t = 13 /\ c = 0 -> "TimestampRequest" [] t = 14 /\ c = 0 -> "TimestampReply" [] OTHER -> "Unknown"
Icmp4HdrLen(t, c) == IF Icmp4Kind(t, c) \in {"TimestampRequest", "TimestampReply"} THEN 20 ELSE 8
\* normalised header of a message b (checksum bytes 2..3 kept)
Norm4(b) ==
  LET t == b[1]  c == b[2]  k == Icmp4Kind(t, c)  head == Sub(b, 0, 4) IN
  CASE k \in {"EchoReply", "EchoRequest", "Redirect", "Unknown"} -> head \o Sub(b, 4, 4)
    [] k = "DestinationUnreachable" -> head \o (IF c = 4 THEN <<0, 0>> \o Sub(b, 6, 2) ELSE Z(4))        \* next-hop MTU (RFC 1191)
    [] k = "TimeExceeded" -> head \o Z(4)
    [] k = "ParameterProblem" -> head \o (IF c = 0 THEN <<b[5], 0, 0, 0>> ELSE Z(4))                      \* pointer
    [] k \in {"TimestampRequest", "TimestampReply"} -> head \o Sub(b, 4, 16)

\* ---- ICMPv6 ----
Icmp6Kind(t, c) ==
  CASE t = 1 /\ c <= 6 -> "DestinationUnreachable" [] t = 2 /\ c = 0 -> "PacketTooBig" [] t = 3 /\ c <= 1 -> "TimeExceeded"
    [] t = 4 /\ c <= 10 -> "ParameterProblem" [] t = 128 /\ c = 0 -> "EchoRequest" [] t = 129 /\ c = 0 -> "EchoReply"
    [] t = 133 /\ c = 0 -> "RouterSolicitation" [] t = 134 /\ c = 0 -> "RouterAdvertisement" [] t = 135 /\ c = 0 -> "NeighborSolicitation"
    [] t = 136 /\ c = 0 -> "NeighborAdvertisement" [] t = 137 /\ c = 0 -> "Redirect" [] OTHER -> "Unknown"
Mask(x, m) == LET lo == CHOOSE p \in {2 ^ i : i \in 0..7} : m % (2 * p) = p IN ((x \div lo) % ((m \div lo) + 1)) * lo       \* x AND m (contiguous m)
Norm6(b) ==
  LET k == Icmp6Kind(b[1], b[2])  head == Sub(b, 0, 4) IN
  CASE k \in {"PacketTooBig", "ParameterProblem", "EchoRequest", "EchoReply", "Unknown"} -> head \o Sub(b, 4, 4)
    [] k \in {"DestinationUnreachable", "TimeExceeded", "RouterSolicitation", "NeighborSolicitation", "Redirect"} -> head \o Z(4)
    [] k = "RouterAdvertisement" -> head \o <<b[5], Mask(b[6], 192), b[7], b[8]>>          \* cur hop limit, M and O flag, router lifetime
    [] k = "NeighborAdvertisement" -> head \o <<Mask(b[5], 224), 0, 0, 0>>                \* R, S, O flags
\* fixed part of the payload behind the 8 byte header (RFC 4861: RS 4, RA 12, NS 20, NA 20, Redirect 36, minus the 4 bytes in the header)
NdFixed(k) == CASE k = "RouterAdvertisement" -> 8 [] k = "NeighborSolicitation" -> 16 [] k = "NeighborAdvertisement" -> 16 [] k = "Redirect" -> 32 [] OTHER -> 0
HasOptions(k) == k \in {"RouterSolicitation", "RouterAdvertisement", "NeighborSolicitation", "NeighborAdvertisement", "Redirect"}

\* ---- neighbour discovery options ----
NdErrs(rest) ==
  LET n == Len(rest) IN
  \* not even the two byte option header: "too short", whichever of the two size errors names it
  IF n < 2 THEN {<<"UnexpectedEndOfSlice", -1>>, <<"UnexpectedEndOfSlice", rest[1]>>, <<"UnexpectedSize", -1>>, <<"UnexpectedSize", rest[1]>>}
  \* every condition that is violated admits the error kinds that describe it (an option that is wrong in two ways may be reported either way)
  ELSE LET t == rest[1]  u == rest[2]  fixed == (t = 5 /\ u # 1) \/ (t = 3 /\ u # 4) IN
       (IF u = 0 THEN {<<"ZeroLength", t>>} ELSE {})
       \cup (IF u # 0 /\ n < 8 * u THEN {<<"UnexpectedEndOfSlice", t>>} ELSE {})
       \cup (IF fixed THEN {<<"UnexpectedSize", t>>, <<"UnexpectedHeader", t>>} ELSE {})
NdNext(it) ==        \* it = [rest, dead]; returns <<result, new state>>
  IF it.rest = <<>> THEN <<<<"none">>, it>>
  ELSE IF NdErrs(it.rest) # {} THEN <<<<"err", NdErrs(it.rest)>>, [rest |-> <<>>, dead |-> TRUE]>>
  ELSE LET l == 8 * it.rest[2] IN <<<<"item", it.rest[1], Sub(it.rest, 0, l)>>, [it EXCEPT !.rest = Sub(it.rest, l, Len(it.rest) - l)]>>
\* typed view of one accepted option o (complete option bytes): option type followed by the values of its fields
\* (RFC 4861 4.6.1 link layer address, 4.6.2 prefix information, 4.6.3 redirected header, 4.6.4 MTU)
NdTyped(o) ==
  LET t == o[1]  n == Len(o) IN
  CASE t \in {1, 2} -> <<t>> \o Sub(o, 2, n - 2)
    [] t = 3 -> <<3, o[3], (o[4] \div 128) % 2, (o[4] \div 64) % 2>> \o Sub(o, 4, 8) \o Sub(o, 16, 16)     \* prefix length, L, A, valid, preferred lifetime, prefix
    [] t = 4 -> <<4>> \o Sub(o, 8, n - 8)                                                                   \* 6 reserved bytes, then the IP header + data
    [] t = 5 -> <<5>> \o Sub(o, 4, 4)                                                                       \* 2 reserved bytes, MTU
    [] OTHER -> <<t>> \o Sub(o, 2, n - 2)
\* prefix information struct re-encoded: reserved bits and bytes are zero
NdPrefixNorm(o) == <<3, 4, o[3], Mask(o[4], 192)>> \o Sub(o, 4, 8) \o Z(4) \o Sub(o, 16, 16)
IsErrorKind6(k) == k \in {"DestinationUnreachable", "PacketTooBig", "TimeExceeded", "ParameterProblem"}
NdKindName(t) == CASE t = 1 -> "SourceLinkLayerAddress" [] t = 2 -> "TargetLinkLayerAddress" [] t = 3 -> "PrefixInformation"
                   [] t = 4 -> "RedirectedHeader" [] t = 5 -> "Mtu" [] OTHER -> "Unknown"

\* ---- IGMP ----
\* <<kind, header length>> or <<"err", required length>> for a message of n bytes with type byte t
IgmpKind(t, n) ==
  IF n < 8 THEN <<"err", 8>>
  ELSE CASE t = 17 -> (IF n = 8 THEN <<"MembershipQuery", 8>> ELSE IF n >= 12 THEN <<"MembershipQueryWithSources", 12>> ELSE <<"err", 12>>)
         [] t = 18 -> <<"MembershipReportV1", 8>> [] t = 22 -> <<"MembershipReportV2", 8>> [] t = 23 -> <<"LeaveGroup", 8>>
         [] t = 34 -> <<"MembershipReportV3", 8>> [] OTHER -> <<"Unknown", 8>>
NormIgmp(b, hl) ==
  LET t == b[1] IN
  IF t \in {18, 22, 23, 34} THEN <<t, 0>> \o Sub(b, 2, 6)      \* byte 1 is unused / reserved in reports and leave messages
  ELSE Sub(b, 0, hl)

\* RFC 3376 4.1.1: max resp code < 128: the value itself (in 1/10 s), else floating point  (mant | 0x10) << (exp + 3)
MaxResp10th(c) == IF c < 128 THEN c ELSE ((c % 16) + 16) * 2 ^ (((c \div 16) % 8) + 3)
\* typed fields of an accepted IGMP header (kind k from IgmpKind): type number, the variant's fields, checksum
IgmpTyped(b, k) ==
  LET t == b[1]  grp == Sub(b, 4, 4)  cks == <<b[3] * 256 + b[4]>> IN
  CASE k = "MembershipQuery" -> <<17, b[2]>> \o grp \o cks
    [] k = "MembershipQueryWithSources" ->
         <<17, b[2], MaxResp10th(b[2])>> \o grp \o <<b[9] \div 16, (b[9] \div 8) % 2, b[9] % 8, b[10], b[11] * 256 + b[12]>> \o cks
    [] k \in {"MembershipReportV1", "MembershipReportV2", "LeaveGroup"} -> <<t>> \o grp \o cks
    [] k = "MembershipReportV3" -> <<34, b[5], b[6], b[7] * 256 + b[8]>> \o cks
    [] OTHER -> <<t, b[2]>> \o grp \o cks

\* ---- ARP: Ethernet / IPv4 view ----
ArpEthIpv4Errs(hw, proto, hl, pl) ==
  (IF hw # 1 THEN {"NonMatchingHwType"} ELSE {}) \cup (IF proto # 2048 THEN {"NonMatchingProtocolType"} ELSE {})
  \cup (IF hl # 6 THEN {"NonMatchingHwAddrSize"} ELSE {}) \cup (IF pl # 4 THEN {"NonMatchingProtoAddrSize"} ELSE {})
====
