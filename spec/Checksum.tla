---- MODULE Checksum ----
(* RFC 1071 Internet checksum as an accumulator machine, and the protocol compositions
   (RFC 791 header checksum, RFC 768 / 9293 / 8200 pseudo headers, RFC 792, 4443, 2236).

   acc \in 0..65535 is the one's complement running sum of the big endian 16 bit words added so far
   (end-around carry folded in at every step, so every value stays below 2^16: TLC integers are 32 bit).
   Actions: Add(bytes) for an even number of bytes, AddTail(bytes) pads an odd tail with a zero byte.
   All arithmetic is on 16 bit quantities. *)
EXTENDS Integers, Sequences, FiniteSets, TLC

Add1c(a, w) == LET t == a + w IN IF t > 65535 THEN t - 65535 ELSE t        \* end-around carry
Word(b, i) == b[i] * 256 + (IF i + 1 <= Len(b) THEN b[i + 1] ELSE 0)       \* big endian word at 1-based i, odd tail padded with 0

\* one's complement addition is associative and commutative (RFC 1071 section 2 (A)), so the words between the 1-based byte
\* positions lo (odd) and hi are summed as a balanced tree: recursion depth log2(n), 128 kB messages stay within the JVM stack
RECURSIVE SumRange(_, _, _)
SumRange(b, lo, hi) ==
  IF hi <= lo THEN 0
  ELSE IF hi - lo <= 2 THEN Word(b, lo)
  ELSE LET words == (hi - lo + 1) \div 2
           mid == lo + 2 * (words \div 2) IN
       Add1c(SumRange(b, lo, mid), SumRange(b, mid, hi))
Sum(acc, b) == Add1c(acc, SumRange(b, 1, Len(b) + 1))              \* the action "add these bytes" (pads an odd tail)
Fold1071(b) == Sum(0, b)
Finish(acc) == 65535 - acc                      \* one's complement of the sum: the checksum field
NoZero(c) == IF c = 0 THEN 65535 ELSE c         \* UDP: a computed 0 is transmitted as all ones
Cks(b) == Finish(Fold1071(b))

\* ---- protocol compositions; every argument is a byte sequence ----
Be16(v) == << (v \div 256) % 256, v % 256 >>
ZeroAt(h, off) == [i \in 1..Len(h) |-> IF i = off + 1 \/ i = off + 2 THEN 0 ELSE h[i]]
\* IPv4 pseudo header: source, destination, zero, protocol, 16 bit length
Pseudo4(src, dst, proto, len) == src \o dst \o <<0, proto>> \o Be16(len)
\* IPv6 pseudo header: source, destination, 32 bit upper-layer length (as 4 bytes), 3 zero bytes, next header
Pseudo6(src, dst, proto, len4) == src \o dst \o len4 \o <<0, 0, 0, proto>>
Len4(n) == <<0, (n \div 65536) % 256, (n \div 256) % 256, n % 256>>       \* n < 2^24 here

\* message = header (checksum field at byte offset cksoff zeroed) followed by the payload
Msg(hdr, cksoff, payload) == ZeroAt(hdr, cksoff) \o payload
Expected(what, src, dst, hdr, cksoff, payload) ==
  LET n == Len(hdr) + Len(payload)  m == Msg(hdr, cksoff, payload) IN
  CASE what = "udp4"  -> NoZero(Cks(Pseudo4(src, dst, 17, n) \o m))
    [] what = "udp6"  -> NoZero(Cks(Pseudo6(src, dst, 17, Len4(n)) \o m))
    [] what = "tcp4"  -> Cks(Pseudo4(src, dst, 6, n) \o m)
    [] what = "tcp6"  -> Cks(Pseudo6(src, dst, 6, Len4(n)) \o m)
    [] what = "icmp6" -> Cks(Pseudo6(src, dst, 58, Len4(n)) \o m)
    [] what = "icmp4" -> Cks(m)
    [] what = "igmp"  -> Cks(m)
    [] what = "ipv4hdr" -> Cks(m)
\* a received message is valid iff the complete sum (checksum field included) folds to 0xffff
ValidSum(pseudo, hdr, payload) == Fold1071(pseudo \o hdr \o payload) = 65535
====
