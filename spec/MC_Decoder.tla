---- MODULE MC_Decoder ----
(* Bounded exhaustive exploration of the decoder machine over the recipe space.

   Every behaviour:  Init picks a recipe, a truncation point and one parameterisation
   (mode x family) of the machine; Next is one layer action of Decoder!Step.  TLC checks
   the design-level invariants in EVERY reachable state (C01: InBounds, Tiling; C02:
   LayerBound, Progress; C03: PayloadWithinWindow; C07: ErrShape) and, in the final state,
   the relations between the parameterisations (C04 StructAgreesWithSlice, C05
   LaxExtendsStrict, C06 EntryShift).  The Emit "invariant" prints every explored input
   once; the driver replays these inputs into the real crate and validates the recorded
   results with Trace_Decoder (spec -> impl -> spec). *)
EXTENDS Recipes, Decoder, Json

CONSTANT Tier          \* "quick" or "thorough"
CONSTANT CutMode       \* "all": every truncation point; "edges": around header boundaries only

RecipeSet == IF Tier = "quick" THEN RecipesQuick ELSE RecipesThorough

VARIABLES buf, meta, par, st, prev
vars == <<buf, meta, par, st, prev>>

Params == {<<"strict", "slice">>, <<"lax", "slice">>, <<"strict", "struct">>, <<"lax", "struct">>}

Cuts(pk, r) ==
  LET n == Len(pk.bytes) IN
  IF CutMode = "all" THEN 0..n
  ELSE {n} \cup {c \in 0..n : \E e \in {0, 14, 16, pk.netoff, pk.netoff + 20, pk.netoff + 40, n - r.plen, n - r.plen - 8} : c \in {e - 1, e, e + 1}}

\* Initial states: one per recipe.  The first step (Choose) picks the truncation point and the
\* parameterisation, so that the fan-out and all invariant evaluations are done by TLC's workers.
Init ==
  \E r \in RecipeSet :
    /\ buf = <<>> /\ meta = [phase |-> "recipe", r |-> r] /\ par = <<"", "">> /\ st = [next |-> "new"] /\ prev = -1

Choose ==
  /\ st.next = "new"
  /\ LET r == meta.r  pk == Packet(r) IN
     \E c \in Cuts(pk, r), p \in Params :
       /\ buf' = Take(pk.bytes, c)
       /\ meta' = [phase |-> "run", entry |-> LinkEntry(r.link), et |-> pk.et, netoff |-> pk.netoff, netet |-> pk.netet]
       /\ par' = p
       /\ st' = Init0(Take(pk.bytes, c), p[1], p[2], LinkEntry(r.link), IF r.link = "none" THEN pk.et ELSE -1, "all")
       /\ prev' = -1

LayerStep ==
  /\ st.next \notin {"done", "new"}
  /\ st' = Step(buf, st)
  /\ prev' = st.pos
  /\ UNCHANGED <<buf, meta, par>>

Next == Choose \/ LayerStep

Spec == Init /\ [][Next]_vars

\* ---- invariants of every state ----
Running == st.next # "new"
Design == Running => DesignInv(buf, st)
\* C02: every layer action consumes input or ends the run (no step leaves the machine where it was)
Progress == (Running /\ prev >= 0 /\ st.next # "done") => st.pos > prev \/ Len(st.layers) > 0

\* ---- relations between parameterisations, evaluated once per input (in the final state of the first parameterisation)
Ent == meta.entry
Et == IF Ent = "ether" THEN meta.et ELSE -1
F(m, fam) == Final(buf, m, fam, Ent, Et, "all")

Kinds(s) == [i \in 1..Len(s.layers) |-> <<s.layers[i].k, s.layers[i].off, s.layers[i].hlen>>]
IsPrefixOf(a, c) == Len(a) <= Len(c) /\ \A i \in 1..Len(a) : a[i] = c[i]

\* C05: lax extends strict
LaxExtendsStrict(fam) ==
  LET s == F("strict", fam)  x == F("lax", fam) IN
  /\ (s.v = "ok" => /\ x.v = "ok" /\ x.err.faults = {} /\ Kinds(x) = Kinds(s)
                     /\ x.pay.off = s.pay.off /\ x.pay.len = s.pay.len /\ x.pay.k = s.pay.k
                     /\ TRUE \notin x.pay.incs /\ \A i \in 1..Len(x.layers) : TRUE \notin x.layers[i].p.incs)
  \* strict fails: lax has at least the layers strict had decoded before the fault, and Err only if nothing was decoded
  /\ (s.v = "err" => IsPrefixOf(Kinds(s), Kinds(x)))
  /\ (x.v = "err" => s.v = "err" /\ Len(s.layers) = 0)
  \* incomplete <=> a length field promised more than present; then the data up to the slice end, source Slice
  /\ \A i \in 1..Len(x.layers) : (x.layers[i].p.k \in {"ether", "macsecmod", "ip"} /\ TRUE \in x.layers[i].p.incs) => "Slice" \in x.layers[i].p.srcs

\* C04: the struct family is the slice family up to DocExtSlotFull
StructAgreesWithSlice(m) ==
  LET a == F(m, "slice")  h == F(m, "struct") IN
  ~h.full => /\ a.v = h.v /\ Kinds(a) = Kinds(h) /\ a.pay = h.pay /\ a.err = h.err
             /\ \A i \in 1..Len(a.layers) : a.layers[i].sf = h.layers[i].sf

\* C06: Ethernet II door == ether type door on the bytes behind the header, offsets shifted by 14
EntryShift(m, fam) ==
  (Ent = "eth" /\ Len(buf) >= 14) =>
    LET o == F(m, fam)
        i == Final(Drop(buf, 14), m, fam, "ether", U16(buf, 12), "all") IN
    /\ (m = "strict" => o.v = i.v)
    /\ (o.v = "ok" /\ i.v = "ok" =>
          /\ Len(o.layers) = Len(i.layers) + 1
          /\ \A j \in 1..Len(i.layers) : o.layers[j + 1].k = i.layers[j].k /\ o.layers[j + 1].off = i.layers[j].off + 14
                                          /\ o.layers[j + 1].sf = i.layers[j].sf
          /\ o.pay.k = i.pay.k /\ o.pay.len = i.pay.len /\ (o.pay.k # "none" => o.pay.off = i.pay.off + 14))
    /\ (o.err.faults # {} /\ Len(o.layers) >= 1 => i.err.faults = o.err.faults /\ o.err.at = i.err.at + 14)

\* C03: strict decoding fails iff some layer on its path has a fault
FailIffFault == LET s == F("strict", "slice") IN (s.v = "err") <=> (s.err.faults # {})

AtEnd == st.next = "done" /\ par = <<"strict", "slice">>
RelLax == AtEnd => LaxExtendsStrict("slice") /\ LaxExtendsStrict("struct")
RelStruct == AtEnd => StructAgreesWithSlice("strict") /\ StructAgreesWithSlice("lax")
RelShift == AtEnd => \A m \in {"strict", "lax"}, fam \in {"slice", "struct"} : EntryShift(m, fam)
RelFail == AtEnd => FailIffFault

\* ---- spec -> impl: print every explored input once
Plan ==
  (IF Ent = "eth" THEN <<<<"eth", 0, 0>>>> \o (IF Len(buf) >= 14 THEN <<<<"ether", U16(buf, 12), 14>>>> ELSE <<>>)
   ELSE IF Ent = "sll" THEN <<<<"sll", 0, 0>>>> ELSE <<<<"ether", meta.et, 0>>>>)
  \o (IF meta.netoff <= Len(buf) /\ meta.netet \in {ET_IPV4, ET_IPV6}
      THEN <<<<"ip", 0, meta.netoff>>, <<IF meta.netet = ET_IPV4 THEN "ipv4" ELSE "ipv6", 0, meta.netoff>>>>
      ELSE IF meta.netoff <= Len(buf) /\ meta.netoff > 0 THEN <<<<"ether", meta.netet, meta.netoff>>>> ELSE <<>>)

Emit == AtEnd =>
           PrintT(<<"INPUT", ToJson([bytes |-> buf, plan |-> Plan])>>)
====
