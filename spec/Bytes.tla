---- MODULE Bytes ----
(* Byte strings as sequences over 0..255, addressed with 0-based offsets so that
   offsets in the specification coincide with the offsets the crate reports in its
   error values.  All arithmetic stays below 2^31 (TLC integers are 32 bit):
   32-bit wire fields are never held in a single integer, they travel as 4 bytes. *)
EXTENDS Integers, Sequences, FiniteSets

Byte == 0..255

B(b, i)   == b[i + 1]                                  \* byte at 0-based offset i
U16(b, i) == b[i + 1] * 256 + b[i + 2]                 \* big endian 16 bit word
Sub(b, off, n) == SubSeq(b, off + 1, off + n)          \* n bytes starting at offset off
Drop(b, n) == SubSeq(b, n + 1, Len(b))
Take(b, n) == SubSeq(b, 1, n)

Hi4(x) == x \div 16
Lo4(x) == x % 16
Bit(x, k) == (x \div (2 ^ k)) % 2                      \* bit k (0 = least significant) of x
Bits(x, lo, n) == (x \div (2 ^ lo)) % (2 ^ n)          \* n bits starting at bit lo

Be16(v) == << (v \div 256) % 256, v % 256 >>
Rep(n, x) == [i \in 1..n |-> x]

Min(a, b) == IF a < b THEN a ELSE b
Max(a, b) == IF a > b THEN a ELSE b

RECURSIVE Concat(_)
Concat(ss) == IF ss = <<>> THEN <<>> ELSE Head(ss) \o Concat(Tail(ss))
====
