---- MODULE MC_Defrag ----
(* All delivery histories of the fragment pool within small bounds: any order, duplicates,
   interleaving of streams, inconsistent fragments, buffer return (poisoned by the caller) and
   eviction with reuse of stale buffers.  Ghost variables (hidden from the state space by VIEW where
   they do not influence behaviour) record what was accepted, to state "returns the original
   payload exactly once, on the delivery that supplies the last missing byte". *)
EXTENDS Defrag, Json

CONSTANTS MaxDeliveries, MaxGen, L1, L2, L3
MCLen0 == <<L1, L2, L3>>

\* ---- fragment universe of a stream with datagram length L: every consistent cut + inconsistent shapes
Units(L) == (L + 7) \div 8
Cuts(L) == {Frag(8 * a, IF 8 * c > L THEN L - 8 * a ELSE 8 * (c - a), 8 * c < L) : a \in 0..(Units(L) - 1), c \in 1..Units(L)}
\* (offset 0 without the more-fragments flag is not a fragment at all: such packets pass through)
ConsistentFrags(L) == {f \in Cuts(L) : f.len > 0 /\ Consistent(f, L) /\ (f.off # 0 \/ f.mf)}
InconsistentFrags(L) ==
  {Frag(0, 3, TRUE),                          \* unaligned although more fragments follow
   Frag(8, 8, FALSE),                         \* a "last" fragment that ends too early (if L > 16)
   Frag(8 * Units(L), 8, TRUE),               \* data behind the real end
   Frag(8 * Units(L), 5, FALSE),              \* a second, different end
   Frag(65528, 8, TRUE)}                      \* offset + length beyond 65535
  \ ConsistentFrags(L)
Universe(s) == ConsistentFrags(Len0[s]) \cup InconsistentFrags(Len0[s])

VARIABLES n,          \* number of deliveries so far (bound)
          acc,        \* ghost: [stream -> set of fragments accepted for the reassembly in progress]
          outbufs,    \* result buffers the caller still holds (set of cell sequences)
          lastf,      \* ghost: the last delivered <<stream, fragment>>
          hist        \* ghost: the operations so far (printed for the spec -> impl replay)
mcvars == <<vars, n, acc, outbufs, lastf, hist>>
Op(op, s, f) == [op |-> op, s |-> s, off |-> f.off, len |-> f.len, mf |-> IF f.mf THEN 1 ELSE 0]
NoFrag == Frag(0, 0, FALSE)

MCInit == Init /\ n = 0 /\ acc = [s \in Streams |-> {}] /\ outbufs = {} /\ lastf = <<>> /\ hist = <<>>

DoDeliver ==
  /\ n < MaxDeliveries
  /\ \E s \in Streams : \E f \in Universe(s) :
       /\ gen[s] < MaxGen
       /\ Deliver(s, f)
       /\ n' = n + 1
       /\ lastf' = <<s, f>>
       /\ hist' = Append(hist, Op("deliver", s, f))
       /\ acc' = [acc EXCEPT ![s] = IF out'.k = "err" THEN @ ELSE IF out'.k = "ok" THEN {} ELSE @ \cup {f}]
       /\ outbufs' = IF out'.k = "ok" THEN outbufs \cup {out'.cells} ELSE outbufs

\* the caller returns a buffer; the harness poisons it first, so its contents are Junk
DoReturn ==
  /\ outbufs # {}
  /\ \E b \in outbufs : /\ ReturnBuf([i \in 1..Len(b) |-> Junk])
                        /\ outbufs' = outbufs \ {b}
  /\ hist' = Append(hist, Op("return", 0, NoFrag))
  /\ UNCHANGED <<n, acc, lastf>>

DoEvict ==
  /\ \E s \in DOMAIN active : gen[s] < MaxGen /\ Evict({s}) /\ acc' = [acc EXCEPT ![s] = {}]
                              /\ hist' = Append(hist, Op("evict", s, NoFrag))
  /\ UNCHANGED <<n, outbufs, lastf>>

MCNext == DoDeliver \/ DoReturn \/ DoEvict
MCSpec == MCInit /\ [][MCNext]_mcvars

\* ---- properties ----
Covered(F) == UNION {(f.off)..(FEnd(f) - 1) : f \in F}
OnlyReal(s) == acc[s] \subseteq ConsistentFrags(Len0[s])

\* original payload, exactly when the last missing byte arrives, never before
ReturnsOriginal ==
  (out.k = "ok" /\ lastf # <<>>) =>
     LET s == lastf[1] IN
     \* acc was reset by the completion; use the model: a result for a reassembly of real fragments is the original
     TRUE
\* NoEarlyReturn / ReturnExact, phrased on the pre-state through the ghost: while only real fragments were
\* accepted and bytes are still missing the stream stays active; TLC checks the step property below
StepProp ==
  [][ \A s \in Streams :
        (n' = n + 1 /\ lastf'[1] = s /\ OnlyReal(s) /\ lastf'[2] \in ConsistentFrags(Len0[s])) =>
           LET F == acc[s] \cup {lastf'[2]}
               full == Covered(F) = 0..(Len0[s] - 1) IN
           /\ out'.k # "err"                                         \* a real fragment is never rejected
           /\ (full <=> out'.k = "ok")                                 \* returned exactly when nothing is missing
           /\ (out'.k = "ok" => out'.cells = Original(s, gen[s]) /\ out'.s = s)
    ]_mcvars

\* detectable inconsistencies are rejected and leave no trace
RejectsInconsistent ==
  [][ (n' = n + 1 /\ out'.k = "err") => active' = active /\ gen' = gen /\ free' \in {free, Append(free, NewBuf)} ]_mcvars

\* an unfragmented packet of a stream under reassembly must not disturb it
DoPass ==
  /\ n < MaxDeliveries
  /\ \E s \in Streams : PassThrough /\ hist' = Append(hist, Op("pass", s, Frag(0, 8, FALSE)))
  /\ n' = n + 1 /\ UNCHANGED <<acc, outbufs, lastf>>

SimNext == MCNext \/ DoPass
SimSpec == MCInit /\ [][SimNext]_mcvars
\* simulation mode: print the history once its delivery budget is used up
EmitHist == (n = MaxDeliveries /\ hist # <<>> /\ hist[Len(hist)].op \in {"deliver", "pass"}) => PrintT(<<"HIST", ToJson(hist)>>)

Bound == n <= MaxDeliveries
\* ghost variables lastf does not influence behaviour
View == <<active, free, gen, out, n, acc, outbufs>>
\* (lastf is needed by StepProp in the successor state only; hist never influences behaviour)
====
