---- MODULE Trace_Ctl ----
(* Trace validation of the typed control message views against Ctl.tla: message kind, normalised header, header / fixed part /
   option split (byte ranges), the neighbour discovery option iterator per next() call, IGMP kinds and ARP views. *)
EXTENDS Ctl, Json, IOUtils

CONSTANT KnownDev
Rec == ndJsonDeserialize(IOEnv.TRACE)

Icmp4Mism(e) ==
  LET b == e.bytes  n == Len(b) IN
  \* (a truncated timestamp message may be reported as missing the 8 byte header or the 20 byte message: both are really required)
  IF n < 8 THEN (IF e.ok # 0 THEN {"icmp4.accepted_short"}
                 ELSE IF e.req \notin ({8} \cup (IF n >= 2 /\ Icmp4HdrLen(b[1], b[2]) = 20 THEN {20} ELSE {})) \/ e.len # n THEN {"icmp4.len_error"} ELSE {})
  ELSE LET k == Icmp4Kind(b[1], b[2])  hl == Icmp4HdrLen(b[1], b[2]) IN
       \* RFC 792: timestamp messages are exactly 20 bytes
       IF hl = 20 /\ n # 20 THEN (IF e.ok # 0 THEN {"icmp4.timestamp_size_accepted"} ELSE IF e.req # 20 \/ e.len # n THEN {"icmp4.len_error"} ELSE {})
       ELSE IF e.ok # 1 THEN {"icmp4.rejected"}
       ELSE (IF e.kind # k THEN {"icmp4.kind:" \o e.kind \o "/" \o k} ELSE {}) \cup (IF e.hlen # hl THEN {"icmp4.header_len"} ELSE {})
            \cup (IF e.norm # Norm4(b) THEN {"icmp4.fields:" \o k} ELSE {}) \cup (IF e.pay # <<hl, n - hl>> /\ ~(n = hl /\ e.pay[2] = 0) THEN {"icmp4.payload_range"} ELSE {})
            \cup (IF e.hdr_same # 1 THEN {"icmp4.header_struct_differs"} ELSE {})

RECURSIVE NdSteps(_, _, _, _)
NdSteps(it, steps, i, base) ==      \* base: offset of the option area inside the message
  IF i > Len(steps) THEN {}
  ELSE LET x == NdNext(it)  r == x[1]  o == steps[i] IN
       (IF o.rest # Len(x[2].rest) THEN {"ndp.rest"} ELSE {})
       \cup (CASE r[1] = "none" -> (IF o.r.k # "none" THEN {"ndp.expected_end:" \o o.r.k} ELSE {})
               [] r[1] = "item" -> (IF o.r.k # "item" THEN {"ndp.expected_item:" \o o.r.k \o o.r.name}
                                    ELSE (IF o.r.name # NdKindName(r[2]) THEN {"ndp.option_kind"} ELSE {})
                                         \cup (IF o.r.bytes # r[3] THEN {"ndp.option_bytes"} ELSE {})
                                         \cup (IF o.r.rg[2] # Len(r[3]) THEN {"ndp.option_len"} ELSE {})
                                         \cup (IF o.r.tf # NdTyped(r[3]) THEN {"ndp.typed_fields:" \o o.r.name} ELSE {})
                                         \cup (IF r[2] = 3 /\ o.r.re # NdPrefixNorm(r[3]) THEN {"ndp.prefix_information_struct"} ELSE {}))
               [] r[1] = "err" -> (IF o.r.k # "err" THEN {"ndp.expected_error:" \o o.r.k} ELSE IF <<o.r.name, o.r.t>> \notin r[2] THEN {"ndp.error_fields:" \o o.r.name} ELSE {}))
       \cup NdSteps(x[2], steps, i + 1, base)
NdEnded(steps) == Len(steps) >= 3 /\ \A i \in (Len(steps) - 2)..Len(steps) : steps[i].r.k = "none"
\* ranges of the yielded options are adjacent from the start of the area: no gap, no overlap
RECURSIVE Tiled(_, _, _)
Tiled(steps, i, pos) == IF i > Len(steps) \/ steps[i].r.k # "item" THEN TRUE ELSE steps[i].r.rg[1] = pos /\ Tiled(steps, i + 1, pos + steps[i].r.rg[2])

RgOk(r, off, len) == r = <<off, len>> \/ (len = 0 /\ r[2] = 0)
\* typed payload views behind the 8 byte header (payload slice accepted; k: message kind, fx: length of the fixed part)
PvMism(e, b, n, k, fx) ==
  LET v == e.pv  nd == HasOptions(k) IN
  (IF ~RgOk(v.slice, 8, n - 8) THEN {"icmp6.payload_view_slice"} ELSE {})
  \cup (IF v.fixed # (IF nd THEN Sub(b, 8, fx) ELSE <<>>) THEN {"icmp6.payload_fields:" \o k} ELSE {})
  \cup (IF nd THEN (IF v.tp # Sub(b, 8, fx) \/ v.tp_len # fx \/ ~RgOk(v.tp_opts, 8 + fx, n - 8 - fx) THEN {"icmp6.to_payload:" \o k} ELSE {})
        ELSE (IF v.tp_len # -1 THEN {"icmp6.to_payload_for_non_nd:" \o k} ELSE {}))
  \cup (IF (IsErrorKind6(k) \/ k \in {"EchoRequest", "EchoReply"}) /\ ~RgOk(v.inv, 8, n - 8) THEN {"icmp6.invoking_packet_range:" \o k} ELSE {})
  \cup (IF IsErrorKind6(k) /\ v.lax # 1 THEN {"icmp6.as_lax_ip_slice"} ELSE {})
  \cup (IF v.alt # 1 THEN {"icmp6.type_based_entry_points_differ"} ELSE {})

Icmp6Mism(e) ==
  LET b == e.bytes  n == Len(b) IN
  IF n < 8 THEN (IF e.ok # 0 THEN {"icmp6.accepted_short"} ELSE IF e.req # 8 \/ e.len # n THEN {"icmp6.len_error"} ELSE {})
  ELSE IF e.ok # 1 THEN {"icmp6.rejected"}
  ELSE LET k == Icmp6Kind(b[1], b[2])  fx == NdFixed(k) IN
       (IF e.kind # k THEN {"icmp6.kind:" \o e.kind \o "/" \o k} ELSE {}) \cup (IF e.norm # Norm6(b) THEN {"icmp6.fields:" \o k} ELSE {})
       \cup (IF e.pay # <<8, n - 8>> /\ ~(n = 8 /\ e.pay[2] = 0) THEN {"icmp6.payload_range"} ELSE {})
       \cup (IF e.hdr_same # 1 THEN {"icmp6.header_struct_differs"} ELSE {})
       \cup (IF e.tc # <<b[1], b[2], -1>> THEN {"icmp6.type_code_accessors"} ELSE {})
       \cup (IF n - 8 < fx THEN (IF e.ps.k # "err" THEN {"icmp6.payload_slice_accepted_short"} ELSE IF e.ps.req # fx \/ e.ps.len # n - 8 THEN {"icmp6.payload_slice_len_error"}
                                 ELSE IF e.pv.alt # -1 THEN {"icmp6.type_based_entry_points_accept_short"} ELSE {})
             ELSE (IF e.ps.k # "ok" THEN {"icmp6.payload_slice_rejected"}
                   ELSE (IF e.ps.name # (IF k = "Unknown" THEN "Raw" ELSE k) THEN {"icmp6.payload_kind:" \o e.ps.name} ELSE {})
                        \cup PvMism(e, b, n, k, fx)
                        \cup (IF HasOptions(k) THEN
                                (IF e.opts.has # 1 THEN {"icmp6.options_missing"}
                                 ELSE (IF e.opts.rg # <<8 + fx, n - 8 - fx>> /\ ~(n = 8 + fx /\ e.opts.rg[2] = 0) THEN {"icmp6.fixed_var_split"} ELSE {})
                                      \cup NdSteps([rest |-> Sub(b, 8 + fx, n - 8 - fx), dead |-> FALSE], e.opts.steps, 1, 8 + fx)
                                      \cup (IF ~NdEnded(e.opts.steps) THEN {"ndp.unbounded_or_not_dead"} ELSE {})
                                      \cup (IF ~Tiled(e.opts.steps, 1, 8 + fx) THEN {"ndp.tiling"} ELSE {}))
                              ELSE {})))

\* a typed option slice decoded from a slice that IS the option: accepted iff the two byte header is there, names the type (the
\* unknown form takes any type), the length is not zero, equals the slice length, and is the fixed one for MTU (1) / prefix information (4);
\* every violated condition admits the error kinds that can describe it
NdDirectAdm(ty, b) ==
  LET n == Len(b) IN
  IF n < 2 THEN {"UnexpectedEndOfSlice", "UnexpectedSize"}
  ELSE (IF ty \notin {-1} /\ b[1] # (IF ty = -3 THEN 3 ELSE ty) THEN {"UnexpectedHeader"} ELSE {})
       \cup (IF b[2] = 0 THEN {"ZeroLength", "UnexpectedSize", "UnexpectedHeader"} ELSE {})
       \cup (IF n # 8 * b[2] THEN {"UnexpectedSize", "UnexpectedEndOfSlice", "UnexpectedHeader"} ELSE {})
       \cup (IF ty = 5 /\ b[2] # 1 THEN {"UnexpectedSize", "UnexpectedHeader"} ELSE {})
       \cup (IF ty \in {3, -3} /\ (b[2] # 4 \/ n # 32) THEN {"UnexpectedSize", "UnexpectedHeader"} ELSE {})
       \cup (IF ty = 4 /\ n < 8 THEN {"UnexpectedSize"} ELSE {})
NdDirectMism(e) ==
  UNION {LET d == e.direct[i]  adm == NdDirectAdm(d[1], e.bytes) IN
         IF adm = {} THEN (IF d[2] # "ok" THEN {"ndp.direct.rejected:" \o d[2]} ELSE {})
         ELSE (IF d[2] = "ok" THEN {"ndp.direct.accepted"} ELSE IF d[2] \notin adm THEN {"ndp.direct.error_kind:" \o d[2]} ELSE {})
         : i \in 1..Len(e.direct)}

NdpMism(e) ==
  NdDirectMism(e) \cup
  (LET b == e.bytes IN
   (IF e.oh # (IF Len(b) < 2 THEN <<0, -1, -1, -1, -1, -1>> ELSE <<1, b[1], b[2], 8 * b[2], Len(b) - 2, 1>>) THEN {"ndp.option_header"} ELSE {})
   \cup (IF Len(b) >= 4 /\ e.echo # <<b[1] * 256 + b[2], b[3] * 256 + b[4], 1>> THEN {"icmp.echo_header"} ELSE {}))
  \cup NdSteps([rest |-> e.bytes, dead |-> FALSE], e.steps, 1, 0) \cup (IF ~NdEnded(e.steps) THEN {"ndp.unbounded_or_not_dead"} ELSE {})
  \cup (IF ~Tiled(e.steps, 1, 0) THEN {"ndp.tiling"} ELSE {}) \cup (IF Len(e.steps) > Len(e.bytes) \div 8 + 4 THEN {"ndp.more_items_than_bytes"} ELSE {})

IgmpMism(e) ==
  LET b == e.bytes  n == Len(b)  k == IgmpKind(IF n > 0 THEN b[1] ELSE 0, n) IN
  IF k[1] = "err" THEN (IF e.ok # 0 THEN {"igmp.accepted"} ELSE IF e.req # k[2] \/ e.len # n THEN {"igmp.len_error"} ELSE {})
  ELSE IF e.ok # 1 THEN {"igmp.rejected"}
  ELSE (IF e.kind # k[1] THEN {"igmp.kind:" \o e.kind \o "/" \o k[1]} ELSE {}) \cup (IF e.hlen # k[2] THEN {"igmp.header_len"} ELSE {})
       \cup (IF e.norm # NormIgmp(b, k[2]) THEN {"igmp.fields:" \o k[1]} ELSE {})
       \cup (IF e.tf # IgmpTyped(b, k[1]) THEN {"igmp.typed_fields:" \o k[1]} ELSE {}) \cup (IF e.back # 1 THEN {"igmp.encode_decode"} ELSE {}) \cup (IF e.rest # <<k[2], n - k[2]>> /\ ~(n = k[2] /\ e.rest[2] = 0) THEN {"igmp.rest_range"} ELSE {})

GroupRecMism(e) ==
  LET b == e.bytes  n == Len(b) IN
  IF n < 8 THEN (IF e.ok # 0 THEN {"grouprec.accepted_short"} ELSE IF e.req # 8 \/ e.len # n THEN {"grouprec.len_error"} ELSE {})
  ELSE IF e.ok # 1 THEN {"grouprec.rejected"}
  ELSE (IF e.f # <<b[1], b[2], b[3] * 256 + b[4]>> THEN {"grouprec.fields"} ELSE {}) \cup (IF e.re # Sub(b, 0, 8) THEN {"grouprec.reencode"} ELSE {})
       \cup (IF e.rest # <<8, n - 8>> /\ ~(n = 8 /\ e.rest[2] = 0) THEN {"grouprec.rest_range"} ELSE {})

ArpMism(e) ==
  LET b == e.bytes IN
  IF e.ok # 1 THEN {"arp.rejected"} ELSE
  \* the slice of the packet ends with the target protocol address (RFC 826: 8 + 2 * hln + 2 * pln bytes), whatever follows
  (IF e.srg # <<0, 8 + 2 * b[5] + 2 * b[6]>> THEN {"arp.slice_range"} ELSE {}) \cup
  LET errs == ArpEthIpv4Errs(b[1] * 256 + b[2], b[3] * 256 + b[4], b[5], b[6]) IN
  IF errs = {} THEN (IF e.view # "ok" THEN {"arp.view_rejected:" \o e.view}
                     ELSE (IF e.f # <<b[7] * 256 + b[8]>> \o Sub(b, 8, 20) THEN {"arp.view_fields"} ELSE {}) \cup (IF e.back # 1 THEN {"arp.view_back_conversion"} ELSE {}))
  ELSE (IF e.view \notin errs THEN {"arp.view_verdict:" \o e.view} ELSE {})

\* the code tables behind the typed messages are the tables of Ctl!Icmp4Kind / Icmp6Kind
CodesOf(K(_, _), t, k) == {c \in 0..255 : K(t, c) = k}
AsSet(q) == {q[i] : i \in 1..Len(q)}
CodesMism(e) ==
  (IF AsSet(e.v4_dest) # CodesOf(Icmp4Kind, 3, "DestinationUnreachable") THEN {"codes.icmpv4.dest_unreachable"} ELSE {})
  \cup (IF AsSet(e.v4_redirect) # CodesOf(Icmp4Kind, 5, "Redirect") THEN {"codes.icmpv4.redirect"} ELSE {})
  \cup (IF AsSet(e.v4_time) # CodesOf(Icmp4Kind, 11, "TimeExceeded") THEN {"codes.icmpv4.time_exceeded"} ELSE {})
  \cup (IF AsSet(e.v4_param) # CodesOf(Icmp4Kind, 12, "ParameterProblem") THEN {"codes.icmpv4.parameter_problem"} ELSE {})
  \cup (IF AsSet(e.v6_dest) # CodesOf(Icmp6Kind, 1, "DestinationUnreachable") THEN {"codes.icmpv6.dest_unreachable"} ELSE {})
  \cup (IF AsSet(e.v6_time) # CodesOf(Icmp6Kind, 3, "TimeExceeded") THEN {"codes.icmpv6.time_exceeded"} ELSE {})
  \cup (IF AsSet(e.v6_param) # CodesOf(Icmp6Kind, 4, "ParameterProblem") THEN {"codes.icmpv6.parameter_problem"} ELSE {})
  \cup (IF e.round # 1 THEN {"codes.code_u8_roundtrip"} ELSE {})

VARIABLES l, bad
TraceInit == l = 1 /\ bad = {}
TraceNext == /\ l <= Len(Rec)
             /\ LET e == Rec[l]
                    ms == CASE e.ev = "icmp4" -> Icmp4Mism(e) [] e.ev = "icmp6" -> Icmp6Mism(e) [] e.ev = "ndp" -> NdpMism(e) [] e.ev = "igmp" -> IgmpMism(e)
                            [] e.ev = "grouprec" -> GroupRecMism(e) [] e.ev = "arp" -> ArpMism(e) [] e.ev = "codes" -> CodesMism(e) [] OTHER -> {"panic:" \o e.kind}
                IN bad' = bad \cup {<<e.id, t>> : t \in ms}
             /\ l' = l + 1
TraceSpec == TraceInit /\ [][TraceNext]_<<l, bad>>
TraceAccepted == TLCGet("stats").diameter - 1 = Len(Rec)
Report == (l = Len(Rec) + 1) => PrintT(<<"TRACE-RESULT", ToJson([events |-> Len(Rec), bad |-> bad, known |-> {}])>>)
====
