---- MODULE Wire ----
(* Wire formats of the headers etherparse decodes, transcribed from the RFCs / IEEE
   documents (RFC 791, 8200, 4302, 768, 9293, 792, 4443, 826, IEEE 802.1Q, 802.1AE,
   LINKTYPE_LINUX_SLL).  For every header kind:  its length as a function of the
   bytes, and the sequence of field values a decoder has to report ("Fld").  Field
   sequences are plain integer sequences so that the harness' projection of the
   crate's accessors can be compared element by element. *)
EXTENDS Bytes

\* ---- ether types / ip numbers that drive the layered decoder ----
ET_IPV4 == 2048      \* 0x0800
ET_ARP  == 2054      \* 0x0806
ET_IPV6 == 34525     \* 0x86DD
ET_VLAN == {33024, 34984, 37120}   \* 0x8100, 0x88A8, 0x9100
ET_MACSEC == 35045   \* 0x88E5

IP_ICMP == 1   IP_TCP == 6   IP_UDP == 17   IP_ICMP6 == 58
IP_HBH == 0    IP_ROUTE == 43  IP_FRAG == 44  IP_AUTH == 51  IP_DST == 60
ExtNumbers == {IP_HBH, IP_ROUTE, IP_FRAG, IP_AUTH, IP_DST}

\* ---- Linux cooked capture v1 ----
SllHwOk == {1, 770, 778, 803, 824}       \* ETHERNET, FRAD, IPGRE, IEEE80211_RADIOTAP, NETLINK
SllNonStd == (1..9) \cup (12..14) \cup {16, 17} \cup (21..28) \cup (245..250)
                                         \* Linux "non standard" ether types (if_ether.h)

\* ---- MACsec SecTAG (IEEE 802.1AE) ----
MsUnmod(b0) == Bits(b0, 2, 2) = 0        \* E = 0 and C = 0: user data unmodified, ether type follows
MsSc(b0)    == Bit(b0, 5) = 1            \* SCI present
MsHdrLen(b0) == 6 + (IF MsUnmod(b0) THEN 2 ELSE 0) + (IF MsSc(b0) THEN 8 ELSE 0)
MsPtype(b0) == IF Bit(b0, 3) = 1 THEN (IF Bit(b0, 2) = 1 THEN 2 ELSE 3)   \* 2 encrypted, 3 encrypted+unmodified
               ELSE IF Bit(b0, 2) = 1 THEN 1 ELSE 0                          \* 1 modified, 0 unmodified

\* ---- field sequences -------------------------------------------------------
FldEth(b, o)  == Sub(b, o, 12) \o <<U16(b, o + 12)>>
\* what the protocol type field means depends on the ARP hardware type (LINKTYPE_LINUX_SLL): 1 netlink protocol, 2 GRE protocol type,
\* 3 ether type, 4 one of the Linux "non standard" ether types, 0 ignored (FRAD, radiotap)
SllProtoKind(hw, v) == IF hw = 824 THEN 1 ELSE IF hw = 778 THEN 2 ELSE IF hw = 1 THEN (IF v \in SllNonStd THEN 4 ELSE 3) ELSE 0
FldSll(b, o)  == <<U16(b, o), U16(b, o + 2), U16(b, o + 4)>> \o Sub(b, o + 6, 8) \o <<U16(b, o + 14), SllProtoKind(U16(b, o + 2), U16(b, o + 14))>>
FldVlan(b, o) == <<Bits(B(b, o), 5, 3), Bit(B(b, o), 4), Bits(B(b, o), 0, 4) * 256 + B(b, o + 1), U16(b, o + 2)>>
FldMacsec(b, o, hl) ==
  LET b0 == B(b, o) IN
  <<MsPtype(b0), IF MsUnmod(b0) THEN U16(b, o + hl - 2) ELSE -1,
    Bit(b0, 6), Bit(b0, 4), Bits(b0, 0, 2), Bits(B(b, o + 1), 0, 6)>>
  \o Sub(b, o + 2, 4) \o (IF MsSc(b0) THEN <<1>> \o Sub(b, o + 6, 8) ELSE <<0>>)
FldArp(b, o, hl) == <<U16(b, o), U16(b, o + 2), B(b, o + 4), B(b, o + 5), U16(b, o + 6)>> \o Sub(b, o + 8, hl - 8)
FldIpv4(b, o, hl) ==
  <<Bits(B(b, o + 1), 2, 6), Bits(B(b, o + 1), 0, 2), U16(b, o + 2), U16(b, o + 4),
    Bit(B(b, o + 6), 6), Bit(B(b, o + 6), 5), Bits(B(b, o + 6), 0, 5) * 256 + B(b, o + 7),
    B(b, o + 8), B(b, o + 9), U16(b, o + 10)>> \o Sub(b, o + 12, 8) \o Sub(b, o + 20, hl - 20)
FldAuth(b, o, hl) == <<B(b, o)>> \o Sub(b, o + 4, hl - 4)          \* next header, SPI, sequence number, ICV
FldIpv6(b, o) ==
  <<Lo4(B(b, o)) * 16 + Hi4(B(b, o + 1)), Lo4(B(b, o + 1)), B(b, o + 2), B(b, o + 3),
    U16(b, o + 4), B(b, o + 6), B(b, o + 7)>> \o Sub(b, o + 8, 32)
FldUdp(b, o) == <<U16(b, o), U16(b, o + 2), U16(b, o + 4), U16(b, o + 6)>>
FldTcp(b, o, hl) ==
  <<U16(b, o), U16(b, o + 2)>> \o Sub(b, o + 4, 8) \o
  <<Hi4(B(b, o + 12)), Bit(B(b, o + 12), 0) * 256 + B(b, o + 13), U16(b, o + 14), U16(b, o + 16), U16(b, o + 18)>>
  \o Sub(b, o + 20, hl - 20)
FldIcmp(b, o) == <<B(b, o), B(b, o + 1), U16(b, o + 2)>> \o Sub(b, o + 4, 4)

FldFrag(b, o) == <<B(b, o), U16(b, o + 2) \div 8, Bit(B(b, o + 3), 0)>> \o Sub(b, o + 4, 4)
FldRawExt(b, o, hl) == <<B(b, o)>> \o Sub(b, o + 2, hl - 2)

\* ---- encoders: field sequence -> bytes (inverse of Fld*; reserved bits are written as zero) --------------
Seg(f, from, n) == SubSeq(f, from, from + n - 1)
Tl(f, from) == SubSeq(f, from, Len(f))
EncEth(f)  == Seg(f, 1, 12) \o Be16(f[13])
EncSll(f)  == Be16(f[1]) \o Be16(f[2]) \o Be16(f[3]) \o Seg(f, 4, 8) \o Be16(f[12])
EncVlan(f) == <<f[1] * 32 + f[2] * 16 + f[3] \div 256, f[3] % 256>> \o Be16(f[4])
EncMacsec(f) ==
  LET pt == f[1]  sc == f[11]
      tci == f[5] + (IF pt \in {1, 2} THEN 4 ELSE 0) + (IF pt \in {2, 3} THEN 8 ELSE 0) + f[4] * 16 + sc * 32 + f[3] * 64
  IN <<tci, f[6]>> \o Seg(f, 7, 4) \o (IF sc = 1 THEN Seg(f, 12, 8) ELSE <<>>) \o (IF pt = 0 THEN Be16(f[2]) ELSE <<>>)
EncArp(f)  == Be16(f[1]) \o Be16(f[2]) \o <<f[3], f[4]>> \o Be16(f[5]) \o Tl(f, 6)
EncIpv4(f) ==
  LET opts == Tl(f, 19)  ihl == 5 + Len(opts) \div 4 IN
  <<64 + ihl, f[1] * 4 + f[2]>> \o Be16(f[3]) \o Be16(f[4]) \o <<f[5] * 64 + f[6] * 32 + f[7] \div 256, f[7] % 256, f[8], f[9]>>
  \o Be16(f[10]) \o Seg(f, 11, 8) \o opts
EncAuth(f) == LET icv == Tl(f, 10) IN <<f[1], (Len(icv) + 12) \div 4 - 2, 0, 0>> \o Seg(f, 2, 8) \o icv
EncIpv6(f) == <<96 + f[1] \div 16, (f[1] % 16) * 16 + f[2], f[3], f[4]>> \o Be16(f[5]) \o <<f[6], f[7]>> \o Seg(f, 8, 32)
EncUdp(f)  == Be16(f[1]) \o Be16(f[2]) \o Be16(f[3]) \o Be16(f[4])
EncTcp(f)  == Be16(f[1]) \o Be16(f[2]) \o Seg(f, 3, 8) \o <<f[11] * 16 + f[12] \div 256, f[12] % 256>>
              \o Be16(f[13]) \o Be16(f[14]) \o Be16(f[15]) \o Tl(f, 16)
EncIcmp(f) == <<f[1], f[2]>> \o Be16(f[3]) \o Seg(f, 4, 4)
EncFrag(f) == <<f[1], 0, (f[2] * 8) \div 256, ((f[2] * 8) % 256) + f[3]>> \o Seg(f, 4, 4)
EncRawExt(f) == LET pl == Tl(f, 2) IN <<f[1], (Len(pl) - 6) \div 8>> \o pl

Enc(k, f) ==
  CASE k = "eth" -> EncEth(f) [] k = "sll" -> EncSll(f) [] k = "vlan" -> EncVlan(f) [] k = "macsec" -> EncMacsec(f)
    [] k = "arp" -> EncArp(f) [] k = "ipv4" -> EncIpv4(f) [] k = "auth" -> EncAuth(f) [] k = "ipv6" -> EncIpv6(f)
    [] k = "udp" -> EncUdp(f) [] k = "tcp" -> EncTcp(f) [] k = "icmp4" -> EncIcmp(f) [] k = "icmp6" -> EncIcmp(f)
    [] k = "frag" -> EncFrag(f) [] k = "rawext" -> EncRawExt(f)
\* decode a complete header of kind k that starts at offset 0 of b
Dec(k, b) ==
  CASE k = "eth" -> FldEth(b, 0) [] k = "sll" -> FldSll(b, 0) [] k = "vlan" -> FldVlan(b, 0) [] k = "macsec" -> FldMacsec(b, 0, MsHdrLen(B(b, 0)))
    [] k = "arp" -> FldArp(b, 0, 8 + 2 * B(b, 4) + 2 * B(b, 5)) [] k = "ipv4" -> FldIpv4(b, 0, 4 * Lo4(B(b, 0)))
    [] k = "auth" -> FldAuth(b, 0, (B(b, 1) + 2) * 4) [] k = "ipv6" -> FldIpv6(b, 0) [] k = "udp" -> FldUdp(b, 0)
    [] k = "tcp" -> FldTcp(b, 0, 4 * Hi4(B(b, 12))) [] k = "icmp4" -> FldIcmp(b, 0) [] k = "icmp6" -> FldIcmp(b, 0)
    [] k = "frag" -> FldFrag(b, 0) [] k = "rawext" -> FldRawExt(b, 0, (B(b, 1) + 1) * 8)
\* length of the header of kind k that starts at offset 0 of b (b long enough for the fixed part)
HdrLen(k, b) ==
  CASE k = "eth" -> 14 [] k = "sll" -> 16 [] k = "vlan" -> 4 [] k = "macsec" -> MsHdrLen(B(b, 0))
    [] k = "arp" -> 8 + 2 * B(b, 4) + 2 * B(b, 5) [] k = "ipv4" -> 4 * Lo4(B(b, 0)) [] k = "auth" -> (B(b, 1) + 2) * 4
    [] k = "ipv6" -> 40 [] k = "udp" -> 8 [] k = "tcp" -> 4 * Hi4(B(b, 12)) [] k = "icmp4" -> 8 [] k = "icmp6" -> 8
    [] k = "frag" -> 8 [] k = "rawext" -> (B(b, 1) + 1) * 8
\* bytes needed before the length is known
FixLenOf(k) ==
  CASE k = "eth" -> 14 [] k = "sll" -> 16 [] k = "vlan" -> 4 [] k = "macsec" -> 6 [] k = "arp" -> 8 [] k = "ipv4" -> 20 [] k = "auth" -> 12
    [] k = "ipv6" -> 40 [] k = "udp" -> 8 [] k = "tcp" -> 20 [] k = "icmp4" -> 8 [] k = "icmp6" -> 8 [] k = "frag" -> 8 [] k = "rawext" -> 8

\* ICMPv4 header length: timestamp / timestamp reply (code 0) carry 12 more bytes
Icmp4Ts(b, o) == B(b, o) \in {13, 14} /\ B(b, o + 1) = 0
====
