---- MODULE Wire ----
(* Wire formats of the headers etherparse decodes, transcribed from the RFCs / IEEE
   documents (RFC 791, 8200, 4302, 768, 9293, 792, 4443, 826, IEEE 802.1Q, 802.1AE,
   LINKTYPE_LINUX_SLL).  For every header kind:  its length as a function of the
   bytes, and the sequence of field values a decoder has to report ("Fld").  Field
   sequences are plain integer sequences so that the harness' projection of the
   crate's accessors can be compared element by element. *)
EXTENDS Bytes

\* ---- ether types / ip numbers that drive the layered decoder ----
ET_IPV4 == 2048      \* 0x0800
ET_ARP  == 2054      \* 0x0806
ET_IPV6 == 34525     \* 0x86DD
ET_VLAN == {33024, 34984, 37120}   \* 0x8100, 0x88A8, 0x9100
ET_MACSEC == 35045   \* 0x88E5

IP_ICMP == 1   IP_TCP == 6   IP_UDP == 17   IP_ICMP6 == 58
IP_HBH == 0    IP_ROUTE == 43  IP_FRAG == 44  IP_AUTH == 51  IP_DST == 60
ExtNumbers == {IP_HBH, IP_ROUTE, IP_FRAG, IP_AUTH, IP_DST}

\* ---- Linux cooked capture v1 ----
SllHwOk == {1, 770, 778, 803, 824}       \* ETHERNET, FRAD, IPGRE, IEEE80211_RADIOTAP, NETLINK
SllNonStd == (1..9) \cup (12..14) \cup {16, 17} \cup (21..28) \cup (245..250)
                                         \* Linux "non standard" ether types (if_ether.h)

\* ---- MACsec SecTAG (IEEE 802.1AE) ----
MsUnmod(b0) == Bits(b0, 2, 2) = 0        \* E = 0 and C = 0: user data unmodified, ether type follows
MsSc(b0)    == Bit(b0, 5) = 1            \* SCI present
MsHdrLen(b0) == 6 + (IF MsUnmod(b0) THEN 2 ELSE 0) + (IF MsSc(b0) THEN 8 ELSE 0)
MsPtype(b0) == IF Bit(b0, 3) = 1 THEN (IF Bit(b0, 2) = 1 THEN 2 ELSE 3)   \* 2 encrypted, 3 encrypted+unmodified
               ELSE IF Bit(b0, 2) = 1 THEN 1 ELSE 0                          \* 1 modified, 0 unmodified

\* ---- field sequences -------------------------------------------------------
FldEth(b, o)  == Sub(b, o, 12) \o <<U16(b, o + 12)>>
FldSll(b, o)  == <<U16(b, o), U16(b, o + 2), U16(b, o + 4)>> \o Sub(b, o + 6, 8) \o <<U16(b, o + 14)>>
FldVlan(b, o) == <<Bits(B(b, o), 5, 3), Bit(B(b, o), 4), Bits(B(b, o), 0, 4) * 256 + B(b, o + 1), U16(b, o + 2)>>
FldMacsec(b, o, hl) ==
  LET b0 == B(b, o) IN
  <<MsPtype(b0), IF MsUnmod(b0) THEN U16(b, o + hl - 2) ELSE -1,
    Bit(b0, 6), Bit(b0, 4), Bits(b0, 0, 2), Bits(B(b, o + 1), 0, 6)>>
  \o Sub(b, o + 2, 4) \o (IF MsSc(b0) THEN <<1>> \o Sub(b, o + 6, 8) ELSE <<0>>)
FldArp(b, o, hl) == <<U16(b, o), U16(b, o + 2), B(b, o + 4), B(b, o + 5), U16(b, o + 6)>> \o Sub(b, o + 8, hl - 8)
FldIpv4(b, o, hl) ==
  <<Bits(B(b, o + 1), 2, 6), Bits(B(b, o + 1), 0, 2), U16(b, o + 2), U16(b, o + 4),
    Bit(B(b, o + 6), 6), Bit(B(b, o + 6), 5), Bits(B(b, o + 6), 0, 5) * 256 + B(b, o + 7),
    B(b, o + 8), B(b, o + 9), U16(b, o + 10)>> \o Sub(b, o + 12, 8) \o Sub(b, o + 20, hl - 20)
FldAuth(b, o, hl) == <<B(b, o)>> \o Sub(b, o + 4, hl - 4)          \* next header, SPI, sequence number, ICV
FldIpv6(b, o) ==
  <<Lo4(B(b, o)) * 16 + Hi4(B(b, o + 1)), Lo4(B(b, o + 1)), B(b, o + 2), B(b, o + 3),
    U16(b, o + 4), B(b, o + 6), B(b, o + 7)>> \o Sub(b, o + 8, 32)
FldUdp(b, o) == <<U16(b, o), U16(b, o + 2), U16(b, o + 4), U16(b, o + 6)>>
FldTcp(b, o, hl) ==
  <<U16(b, o), U16(b, o + 2)>> \o Sub(b, o + 4, 8) \o
  <<Hi4(B(b, o + 12)), Bit(B(b, o + 12), 0) * 256 + B(b, o + 13), U16(b, o + 14), U16(b, o + 16), U16(b, o + 18)>>
  \o Sub(b, o + 20, hl - 20)
FldIcmp(b, o) == <<B(b, o), B(b, o + 1), U16(b, o + 2)>> \o Sub(b, o + 4, 4)

\* ICMPv4 header length: timestamp / timestamp reply (code 0) carry 12 more bytes
Icmp4Ts(b, o) == B(b, o) \in {13, 14} /\ B(b, o + 1) = 0
====
