---- MODULE MC_Checksum ----
(* The accumulator machine explored by TLC: all byte strings over a small alphabet up to MaxLen, added in
   every possible sequence of chunks (2, 4, 8 byte adds and slices cut at even offsets, odd tail last).
   Invariant: the running sum equals Fold1071 of everything added so far, whatever the chunking
   (SplitIndependence), plus known-answer vectors from RFC 1071. *)
EXTENDS Checksum, Json

CONSTANTS Alphabet, MaxLen

VARIABLES data, pos, acc, ops
vars == <<data, pos, acc, ops>>

Strings == UNION {[1..n -> Alphabet] : n \in 0..MaxLen}
Init == data \in Strings /\ pos = 0 /\ acc = 0 /\ ops = <<>>

Chunk(n) == SubSeq(data, pos + 1, pos + n)
AddN(n, name) == /\ pos + n <= Len(data) /\ (n % 2 = 0 \/ pos + n = Len(data))
                 /\ acc' = Sum(acc, Chunk(n)) /\ pos' = pos + n /\ ops' = Append(ops, <<name, Chunk(n)>>)
                 /\ UNCHANGED data
Next == \/ AddN(2, "b2") \/ AddN(4, "b4") \/ AddN(8, "b8")
        \/ \E n \in 1..(Len(data) - pos) : AddN(n, "slice")
        \/ (Len(data) = 0 /\ ops = <<>> /\ AddN(0, "slice"))
Spec == Init /\ [][Next]_vars

SplitIndependence == acc = Fold1071(SubSeq(data, 1, pos))
\* RFC 1071 section 3 example: 00 01 f2 03 f4 f5 f6 f7 sums to ddf2 (checksum 220d)
KnownAnswers ==
  /\ Fold1071(<<0, 1, 242, 3, 244, 245, 246, 247>>) = 56818 /\ Cks(<<0, 1, 242, 3, 244, 245, 246, 247>>) = 8717
  /\ Fold1071(<<>>) = 0 /\ Cks(<<>>) = 65535 /\ Fold1071(<<255, 255>>) = 65535 /\ Fold1071(<<255, 255, 0, 1>>) = 1
  /\ Fold1071(<<1>>) = 256 /\ Fold1071(<<255, 255, 255, 255, 255>>) = 65280
  \* classic IPv4 header example (wikipedia): 4500 0073 0000 4000 4011 [b861] c0a8 0001 c0a8 00c7
  /\ Cks(<<69, 0, 0, 115, 0, 0, 64, 0, 64, 17, 0, 0, 192, 168, 0, 1, 192, 168, 0, 199>>) = 47201
\* every maximal behaviour (all data consumed) is one replay case
Emit == (pos = Len(data) /\ ops # <<>>) => PrintT(<<"CKS", ToJson([kind |-> "steps", ops |-> ops])>>)
====
