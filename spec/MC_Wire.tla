---- MODULE MC_Wire ----
(* Value space of the header codecs (C08, C15): for every header kind a set of field sequences built by a star
   design - all-zero and all-ones base values, every field swept over its boundary set (complete domain for the
   bounded bit fields) against both bases, variable parts (options, ICV, addresses, extension payloads) at every
   admissible length class.  TLC checks on the specification:
     RoundTrip     Dec(Enc(v)) = v                       LenAnnounced  Len(Enc(v)) = HdrLen(Enc(v))
     Isolation     changing one field changes only bits that this field owns (masks derived from the encoder)
   and prints every value as a replay case; `bytes` cases carry set reserved bits for the decode->re-encode direction. *)
EXTENDS Wire, Json, TLC

CONSTANT Full      \* TRUE: complete domains also for the 13 and 20 bit fields

Vary(base, i, vals) == {[base EXCEPT ![i] = v] : v \in vals}
Z(n) == Rep(n, 0)
M(n) == Rep(n, 255)
B16 == {0, 1, 255, 256, 32768, 65534, 65535}
B8 == {0, 1, 127, 128, 254, 255}
Rng(n) == 0..(n - 1)
Sweep(bases, fields) == UNION {UNION {Vary(b, fld[1], fld[2]) : fld \in fields} : b \in bases}

EthVals == Sweep({Z(12) \o <<0>>, M(12) \o <<65535>>}, {<<i, B8>> : i \in 1..12} \cup {<<13, B16 \cup {2048, 34525, 33024}>>})
\* (the protocol type is swept over every value around the table of non standard ether types, for every hardware type; the 13th element is
\*  the meaning of the protocol type, derived from the hardware type)
SllVals == {v \o <<SllProtoKind(v[2], v[12])>> :
            v \in Sweep({<<0, 1, 0>> \o Z(8) \o <<2048>>, <<7, 1, 65535>> \o M(8) \o <<65535>>, <<4, 824, 6>> \o M(8) \o <<17>>, <<3, 778, 8>> \o Z(8) \o <<0>>,
                          <<1, 770, 2>> \o Z(8) \o <<3>>, <<2, 803, 4>> \o M(8) \o <<12>>},
                         {<<1, Rng(8)>>, <<3, B16>>, <<12, {0, 2048, 34525, 65535} \cup (0..30) \cup (243..252)>>} \cup {<<i, {0, 255}>> : i \in 4..11})}
VlanVals == Sweep({<<0, 0, 0, 0>>, <<7, 1, 4095, 65535>>}, {<<1, Rng(8)>>, <<2, {0, 1}>>, <<3, Rng(4096)>>, <<4, B16>>})
MacsecBases == {<<0, 2048, 0, 0, 0, 0>> \o Z(4) \o <<0>>, <<0, 65535, 1, 1, 3, 63>> \o M(4) \o <<1>> \o M(8),
                <<1, -1, 0, 0, 0, 0>> \o Z(4) \o <<0>>, <<2, -1, 1, 1, 3, 63>> \o M(4) \o <<1>> \o M(8), <<3, -1, 1, 0, 2, 17>> \o M(4) \o <<0>>}
MacsecVals == UNION {Vary(b, 3, {0, 1}) \cup Vary(b, 4, {0, 1}) \cup Vary(b, 5, Rng(4)) \cup Vary(b, 6, Rng(64)) \cup Vary(b, 7, B8) \cup Vary(b, 10, B8)
                     \cup (IF b[1] = 0 THEN Vary(b, 2, B16) ELSE {}) \cup (IF b[11] = 1 THEN Vary(b, 12, B8) \cup Vary(b, 19, B8) ELSE {})
                     : b \in MacsecBases}
\* well formed: an unmodified payload carries its ether type inside the short length, so 1 is impossible there
MacsecOk(v) == ~(v[1] = 0 /\ v[6] = 1)
ArpVals == {<<hw, pr, h, p, op>> \o Rep(2 * h + 2 * p, fill) : hw \in {0, 1, 65535}, pr \in {0, 2048, 65535}, h \in {0, 1, 6, 255}, p \in {0, 4, 16, 255}, op \in {1, 2, 65535}, fill \in {0, 255}}
Ipv4Base(z, n) == IF z THEN <<0, 0, 20 + n, 0, 0, 0, 0, 0, 0, 0>> \o Z(8) \o Rep(n, 0) ELSE <<63, 3, 65535, 65535, 1, 1, 8191, 255, 255, 65535>> \o M(8) \o Rep(n, 255)
Ipv4Vals == UNION {Sweep({Ipv4Base(TRUE, n), Ipv4Base(FALSE, n)},
                         {<<1, Rng(64)>>, <<2, Rng(4)>>, <<3, B16>>, <<4, B16>>, <<5, {0, 1}>>, <<6, {0, 1}>>,
                          <<7, IF Full THEN Rng(8192) ELSE {0, 1, 255, 256, 4095, 4096, 8190, 8191}>>, <<8, B8>>, <<9, B8>>, <<10, B16>>, <<11, B8>>, <<18, B8>>})
                   : n \in {0, 4, 8, 36, 40}}
AuthVals == {<<nh>> \o Rep(8, x) \o Rep(n, y) : nh \in {0, 6, 255}, x \in {0, 255}, y \in {0, 170}, n \in {0, 4, 8, 12, 1012, 1016}}
Ipv6Vals == Sweep({<<0, 0, 0, 0, 0, 0, 0>> \o Z(32), <<255, 15, 255, 255, 65535, 255, 255>> \o M(32)},
                  {<<1, Rng(256)>>, <<2, Rng(16)>>, <<3, IF Full THEN Rng(256) ELSE B8>>, <<4, IF Full THEN Rng(256) ELSE B8>>, <<5, B16>>, <<6, B8>>, <<7, B8>>, <<8, B8>>, <<39, B8>>})
UdpVals == Sweep({<<0, 0, 0, 0>>, <<65535, 65535, 65535, 65535>>}, {<<i, B16>> : i \in 1..4})
TcpBase(z, n) == IF z THEN <<0, 0>> \o Z(8) \o <<5 + n \div 4, 0, 0, 0, 0>> \o Rep(n, 0) ELSE <<65535, 65535>> \o M(8) \o <<5 + n \div 4, 511, 65535, 65535, 65535>> \o Rep(n, 1)
TcpVals == UNION {Sweep({TcpBase(TRUE, n), TcpBase(FALSE, n)},
                        {<<1, B16>>, <<2, B16>>, <<3, B8>>, <<6, B8>>, <<7, B8>>, <<10, B8>>, <<12, {0, 511} \cup {2 ^ k : k \in 0..8} \cup {511 - 2 ^ k : k \in 0..8}>>,
                         <<13, B16>>, <<14, B16>>, <<15, B16>>})
                  : n \in {0, 4, 20, 40}}
FragVals == Sweep({<<0, 0, 0>> \o Z(4), <<255, 8191, 1>> \o M(4)}, {<<1, B8>>, <<2, IF Full THEN Rng(8192) ELSE {0, 1, 31, 32, 4096, 8190, 8191}>>, <<3, {0, 1}>>, <<4, B8>>, <<7, B8>>})
RawExtVals == {<<nh>> \o Rep(n, x) : nh \in {0, 17, 255}, x \in {0, 255}, n \in {6, 14, 22, 2038, 2046}}
Icmp6RawVals == Sweep({<<200, 0, 0>> \o Z(4), <<255, 255, 65535>> \o M(4)}, {<<1, {200, 201, 254, 255, 100, 5}>>, <<2, B8>>, <<3, B16>>, <<4, B8>>, <<7, B8>>})

Values == {<<"eth", v>> : v \in EthVals} \cup {<<"sll", v>> : v \in SllVals} \cup {<<"vlan", v>> : v \in VlanVals} \cup {<<"macsec", v>> : v \in {x \in MacsecVals : MacsecOk(x)}}
          \cup {<<"arp", v>> : v \in ArpVals} \cup {<<"ipv4", v>> : v \in Ipv4Vals} \cup {<<"auth", v>> : v \in AuthVals} \cup {<<"ipv6", v>> : v \in Ipv6Vals}
          \cup {<<"udp", v>> : v \in UdpVals} \cup {<<"tcp", v>> : v \in TcpVals} \cup {<<"frag", v>> : v \in FragVals} \cup {<<"rawext", v>> : v \in RawExtVals}
          \cup {<<"icmp6", v>> : v \in Icmp6RawVals}

\* reserved / normalised bits per kind as <<byte offset, mask>>: decoding ignores them, encoding writes them as zero
Reserved(k) == CASE k = "ipv4" -> {<<6, 128>>} [] k = "tcp" -> {<<12, 14>>} [] k = "auth" -> {<<2, 255>>, <<3, 255>>}
                 [] k = "frag" -> {<<1, 255>>, <<3, 6>>} [] k = "macsec" -> {<<1, 192>>} [] OTHER -> {}

\* x with all bits of the (contiguous) mask m set
LowBit(m) == CHOOSE p \in {2 ^ i : i \in 0..7} : m % (2 * p) = p
SetMask(x, m) == LET lo == LowBit(m)  cur == ((x \div lo) % ((m \div lo) + 1)) * lo IN (x - cur) + m

VARIABLES kind, k, f, bytes
vars == <<kind, k, f, bytes>>
Init == \E v \in Values :
          \/ kind = "value" /\ k = v[1] /\ f = v[2] /\ bytes = <<>>
          \/ \E r \in Reserved(v[1]) : kind = "bytes" /\ k = v[1] /\ f = v[2]
                                        /\ bytes = [Enc(v[1], v[2]) EXCEPT ![r[1] + 1] = SetMask(@, r[2])]
Next == FALSE /\ UNCHANGED vars
Spec == Init /\ [][Next]_vars

RoundTrip == kind = "value" => Dec(k, Enc(k, f)) = f
LenAnnounced == kind = "value" => Len(Enc(k, f)) = HdrLen(k, Enc(k, f)) /\ Len(Enc(k, f)) >= FixLenOf(k)
\* a byte string with reserved bits set decodes to the same value, and re-encoding clears exactly those bits
Normalises == kind = "bytes" => Dec(k, bytes) = f /\ Enc(k, Dec(k, bytes)) = Enc(k, f)
Emit == PrintT(<<"WIRE", ToJson([kind |-> kind, type |-> k, f |-> f, bytes |-> bytes, enc |-> IF kind = "value" THEN Enc(k, f) ELSE bytes])>>)
====
