SPECIFICATION TraceSpec
CONSTANT KnownDev = {"C07_MacsecSrc", "C07_ArpSrc", "C05_LaxVersionByNibble"}
INVARIANT Report
POSTCONDITION TraceAccepted
CHECK_DEADLOCK FALSE
