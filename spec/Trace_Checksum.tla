---- MODULE Trace_Checksum ----
(* Trace validation of the checksum code: the accumulator is followed STEP BY STEP (after every add_* call the
   folded value of all three register widths must equal Finish(acc) of the machine), every protocol checksum
   function must return Expected(..) computed here from the RFC composition. *)
EXTENDS Checksum, Json, IOUtils

CONSTANT KnownDev
Rec == ndJsonDeserialize(IOEnv.TRACE)

RECURSIVE StepsMism(_, _, _)
StepsMism(acc, steps, i) ==
  IF i > Len(steps) THEN {}
  ELSE LET s == steps[i]
           a2 == Sum(acc, s.bytes)
           c == Finish(a2)
       IN (IF s.native # c THEN {"acc.native." \o s.op} ELSE {}) \cup (IF s.u32 # c THEN {"acc.u32." \o s.op} ELSE {})
          \cup (IF s.u64 # c THEN {"acc.u64." \o s.op} ELSE {})
          \cup (IF s.moved # 1 THEN {"acc.depends_on_address"} ELSE {})
          \cup (IF s.native_nz # NoZero(c) \/ s.u32_nz # NoZero(c) \/ s.u64_nz # NoZero(c) THEN {"acc.no_zero"} ELSE {})
          \cup StepsMism(a2, steps, i + 1)

SatMism(e) ==
  LET c == Finish(Sum(IF e.n > 0 THEN 65535 ELSE 0, e.bytes))
      \* registers pre-loaded with MAX - 1 (little endian host): big endian word sum 0xFEFF
      cf == Finish(Sum(65279, e.bytes)) IN
  (IF e.native # c THEN {"sat.native"} ELSE {}) \cup (IF e.u32 # c THEN {"sat.u32"} ELSE {}) \cup (IF e.u64 # c THEN {"sat.u64"} ELSE {})
  \cup (IF e.u32_full # cf THEN {"sat.u32_register_carry"} ELSE {}) \cup (IF e.u64_full # cf THEN {"sat.u64_register_carry"} ELSE {})

CksMism(e) ==
  LET x == Expected(e.what, e.src, e.dst, e.hdr, e.cksoff, e.payload)
      n == Len(e.hdr) + Len(e.payload)
      \* beyond 2^16 - 1 bytes: the 16 bit length of the IPv4 pseudo header / of the UDP length field cannot hold the length -> error (-1);
      \* over IPv6 (32 bit pseudo header length, RFC 8200 8.1 / RFC 2675) the checksum over the REAL length, or a refusal
      Adm(api) == IF n <= 65535 THEN {x}
                  ELSE IF e.what \in {"udp4", "tcp4"} \/ api = "UdpHeader::with_ipv6_checksum" THEN {-1}
                  ELSE {x, -1}
  IN
  UNION {LET r == e.results[i] IN
         IF r.got = -2 THEN {} ELSE IF r.got = -3 THEN {"cks.without_checksum_not_zero"}
         ELSE IF r.got \notin Adm(r.api) THEN {"cks." \o e.what \o ":" \o r.api} ELSE {} : i \in 1..Len(e.results)}
  \cup (IF e.valid # -1 /\ (e.valid = 1) # ValidSum(Pseudo6(e.src, e.dst, 58, Len4(Len(e.rx))), e.rx, <<>>) THEN {"cks.validation"} ELSE {})
  \cup (IF e.what \in {"udp4", "udp6"} /\ x = 0 THEN {"SPEC.udp_zero"} ELSE {})

VARIABLES l, bad
TraceInit == l = 1 /\ bad = {}
TraceNext == /\ l <= Len(Rec)
             /\ LET e == Rec[l]
                    ms == CASE e.ev = "cks_steps" -> StepsMism(0, e.steps, 1) [] e.ev = "cks_sat" -> SatMism(e)
                            [] e.ev = "cks" -> CksMism(e) [] e.ev = "cks_skip" -> {} [] OTHER -> {"panic"}
                IN bad' = bad \cup {<<e.id, t>> : t \in ms}
             /\ l' = l + 1
TraceSpec == TraceInit /\ [][TraceNext]_<<l, bad>>
TraceAccepted == TLCGet("stats").diameter - 1 = Len(Rec)
Report == (l = Len(Rec) + 1) => PrintT(<<"TRACE-RESULT", ToJson([events |-> Len(Rec), bad |-> bad, known |-> {}])>>)
====
