---- MODULE Defrag ----
(* IP fragment reassembly pool (etherparse::defrag::IpDefragPool over IpDefragBuf).

   Abstract state
     active : streams under reassembly -> [buf (memory + length), secs (received byte ranges), end]
     free   : stack of recycled data buffers WITH their stale contents (the code reuses them through
              clear() + set_len() on uninitialised capacity, so stale bytes are part of the state)
     gen    : per stream the number of datagrams already finished (distinguishes their bytes)
     out    : what the last call returned

   Every byte is a cell  <<stream, generation, position>>  encoded as an integer, Junk marks
   memory that was never written for the datagram under reassembly (uninitialised or stale).
   One action per critical section of the code: Deliver (validate -> take/reuse buffer -> grow ->
   copy -> merge -> complete & remove), PassThrough, ReturnBuf, Evict (= retain). *)
EXTENDS Integers, Sequences, FiniteSets, TLC

CONSTANTS Streams,        \* set of stream ids (small naturals)
          Len0,           \* [Streams -> datagram length in bytes]
          DevEndBeforeData \* TRUE: model of the code before the fix (a last fragment that ends in front of
                           \* already received data is accepted); FALSE: the property-level pool

Junk == -1
Cell(s, g, p) == s * 100000 + g * 10000 + p
MaxLen == 65535

Min(a, b) == IF a < b THEN a ELSE b
Max(a, b) == IF a > b THEN a ELSE b

\* a fragment: byte offset (multiple of 8), payload length, more-fragments flag
Frag(off, len, mf) == [off |-> off, len |-> len, mf |-> mf]
FEnd(f) == f.off + f.len

\* consistent with a datagram of length L: lies inside, MF exactly when it is not the tail, aligned when MF
Consistent(f, L) == FEnd(f) <= L /\ (f.mf <=> FEnd(f) < L) /\ (f.mf => f.len % 8 = 0)

VARIABLES active, free, gen, out
vars == <<active, free, gen, out>>

NoOut == [k |-> "none"]
NewBuf == [mem |-> <<>>, len |-> 0]

Init == active = << >> /\ free = <<>> /\ gen = [s \in Streams |-> 0] /\ out = NoOut

\* ---- buffer operations (Vec<u8> semantics incl. set_len on capacity) ----
SetLen(b, n) ==            \* grow: uninitialised / stale memory becomes visible; shrink: keeps the memory
  [mem |-> IF n > Len(b.mem) THEN b.mem \o [i \in 1..(n - Len(b.mem)) |-> Junk] ELSE b.mem, len |-> n]
Write(b, off, cells) ==    \* copy_from_slice into [off, off + Len(cells))
  [b EXCEPT !.mem = [i \in 1..Len(b.mem) |-> IF i > off /\ i <= off + Len(cells) THEN cells[i - off] ELSE b.mem[i]]]
Clear(b) == [b EXCEPT !.len = 0]
Contents(b) == SubSeq(b.mem, 1, b.len)

\* ---- received ranges: declarative canonical union of touching / overlapping ranges ----
Connected(a, c) == a[1] <= c[2] /\ c[1] <= a[2]
RECURSIVE Absorb(_, _)
Absorb(r, S) ==
  IF \E x \in S : Connected(r, x)
  THEN LET x == CHOOSE x \in S : Connected(r, x) IN Absorb(<<Min(r[1], x[1]), Max(r[2], x[2])>>, S \ {x})
  ELSE S \cup {r}
MaxEnd(S) == IF S = {} THEN 0 ELSE CHOOSE m \in {x[2] : x \in S} : \A y \in S : y[2] <= m

\* ---- fragment validation: the set of reasons for which this fragment is inconsistent ----
\* st = the stream's reassembly state or the fresh state
Fresh == [buf |-> NewBuf, secs |-> {}, end |-> -1]
Errors(st, f) ==
  (IF FEnd(f) > MaxLen THEN {"SegmentTooBig"} ELSE {})
  \cup (IF f.mf /\ f.len % 8 # 0 THEN {"UnalignedFragmentPayloadLen"} ELSE {})
  \cup (IF st.end # -1 /\ (st.end < FEnd(f) \/ (~f.mf /\ FEnd(f) # st.end)) THEN {"ConflictingEnd"} ELSE {})
  \* a last fragment that ends in front of data that was already received
  \cup (IF ~DevEndBeforeData /\ ~f.mf /\ st.end = -1 /\ MaxEnd(st.secs) > FEnd(f) THEN {"ConflictingEnd"} ELSE {})

Add(st, s, g, f) ==
  LET b1 == IF st.buf.len < FEnd(f) THEN SetLen(st.buf, FEnd(f)) ELSE st.buf
      b2 == Write(b1, f.off, [i \in 1..f.len |-> Cell(s, g, f.off + i - 1)])
      b3 == IF ~f.mf THEN SetLen(b2, FEnd(f)) ELSE b2
  IN [buf |-> b3, secs |-> Absorb(<<f.off, FEnd(f)>>, st.secs), end |-> IF ~f.mf THEN FEnd(f) ELSE st.end]

Complete(st) == st.end # -1 /\ st.secs = {<<0, st.end>>}

Restrict(fn, D) == [x \in D |-> fn[x]]

\* ---- actions ----
Deliver(s, f) ==
  LET known == s \in DOMAIN active
      reuse == ~known /\ free # <<>>
      st0 == IF known THEN active[s]
             ELSE [Fresh EXCEPT !.buf = IF reuse THEN Clear(free[Len(free)]) ELSE NewBuf]
      errs == Errors(st0, f)
  IN IF errs # {}
     THEN /\ out' = [k |-> "err", kinds |-> errs]
          \* a rejected fragment leaves no trace in the reassembly state; a buffer that was freshly
          \* allocated for a new stream is kept for later (empty) instead of being dropped
          /\ free' = IF ~known /\ ~reuse THEN Append(free, NewBuf) ELSE free
          /\ UNCHANGED <<active, gen>>
     ELSE LET st1 == Add(st0, s, gen[s], f) IN
          IF Complete(st1)
          THEN /\ out' = [k |-> "ok", cells |-> Contents(st1.buf), s |-> s]
               /\ active' = Restrict(active, DOMAIN active \ {s})
               /\ free' = IF reuse THEN SubSeq(free, 1, Len(free) - 1) ELSE free      \* the data buffer leaves with the result
               /\ gen' = [gen EXCEPT ![s] = @ + 1]
          ELSE /\ out' = NoOut
               /\ active' = [x \in DOMAIN active \cup {s} |-> IF x = s THEN st1 ELSE active[x]]
               /\ free' = IF reuse THEN SubSeq(free, 1, Len(free) - 1) ELSE free
               /\ UNCHANGED gen

\* an unfragmented packet (or ARP, or no network layer) passes through untouched
PassThrough == out' = NoOut /\ UNCHANGED <<active, free, gen>>

\* the caller hands a result buffer back; `mem` is what the buffer contains at that point
ReturnBuf(mem) == free' = Append(free, [mem |-> mem, len |-> Len(mem)]) /\ out' = NoOut /\ UNCHANGED <<active, gen>>

\* retain(): the streams in E are dropped, their buffers (with contents) are recycled
RECURSIVE PushAll(_, _)
PushAll(fr, bufs) == IF bufs = {} THEN fr ELSE LET b == CHOOSE b \in bufs : TRUE IN PushAll(Append(fr, b), bufs \ {b})
Evict(E) ==
  /\ E \subseteq DOMAIN active /\ E # {}
  /\ active' = Restrict(active, DOMAIN active \ E)
  /\ free' \in {PushAll(free, {active[s].buf : s \in E})}
  /\ gen' = [s \in Streams |-> IF s \in E THEN gen[s] + 1 ELSE gen[s]]
  /\ out' = NoOut

\* ---- invariants (C11) ----
Original(s, g) == [i \in 1..Len0[s] |-> Cell(s, g, i - 1)]

\* a result is exactly the original datagram of its stream: complete, in order, nothing foreign, nothing stale.
\* (MC_Defrag restricts this to reassemblies that only accepted fragments of the real datagram: a lying
\*  "last fragment" that arrives first cannot be recognised by any pool.)
ReturnExact == out.k = "ok" => out.cells = Original(out.s, gen[out.s] - 1)
\* whatever was accepted: a result never contains memory that was not written for this datagram
NoLeak == out.k = "ok" => \A i \in 1..Len(out.cells) : out.cells[i] # Junk /\ out.cells[i] = Cell(out.s, gen[out.s] - 1, i - 1)
\* a finished stream holds no state any more
Released == out.k = "ok" => out.s \notin DOMAIN active
\* received ranges are pairwise disjoint and non touching, and lie inside [0, end] once the end is known
SectionsCanonical ==
  \A s \in DOMAIN active :
     LET st == active[s] IN
     /\ \A a \in st.secs, c \in st.secs : a # c => ~Connected(a, c)
     /\ \A a \in st.secs : a[1] <= a[2] /\ (st.end # -1 => a[2] <= st.end)
     /\ ~Complete(st)
\* everything inside a received range really is the stream's data (what completion detection relies on)
RangesHoldData ==
  \A s \in DOMAIN active :
     \A a \in active[s].secs : \A p \in a[1]..(a[2] - 1) : active[s].buf.mem[p + 1] = Cell(s, gen[s], p)
\* streams never mix: no cell of another stream or generation inside a received range (implied by RangesHoldData) and
\* no stream is reported under a foreign id
NoMix == out.k = "ok" => \A i \in 1..Len(out.cells) : out.cells[i] \div 100000 = out.s

Inv == NoLeak /\ Released /\ SectionsCanonical /\ RangesHoldData /\ NoMix
====
