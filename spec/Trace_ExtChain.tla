---- MODULE Trace_ExtChain ----
(* Trace validation of the extension-header walkers: every event holds one configuration and what
   each walker of the real crate (next_header, write, header_len, from_slice on the written bytes,
   set_next_headers, the same through IpHeaders / NetHeaders, the IPv4 analogue) did with it. *)
EXTENDS ExtChain, Json, IOUtils

CONSTANT KnownDev
Rec == ndJsonDeserialize(IOEnv.TRACE)

\* header lengths used by the harness for the six slots
HL == [hbh |-> 8, dst |-> 16, route |-> 8, frag |-> 8, auth |-> 16, fdst |-> 24]
ET_IPV4 == 2048
ET_IPV6 == 34525

Cfg(e) == [s \in SlotSet |-> e.cfg[s]]
Lnk(r) == [s \in SlotSet |-> r[s]]

\* a walker result against the walk of the model
WalkMism(w, r, tag) ==
  IF r.k = "panic" THEN {tag \o ".panic"}
  ELSE IF w.status = "ok" THEN (IF r.k # "ok" THEN {tag \o ".rejected_consistent_chain"} ELSE IF tag # "write" /\ tag # "iph_write" /\ tag # "set.write" /\ r.n # w.next THEN {tag \o ".final"} ELSE {})
  ELSE (IF r.k # "err" THEN {tag \o ".accepted_inconsistent_chain"} ELSE IF <<r.e, r.x>> \notin w.errs THEN {tag \o ".errkind"} ELSE {})

ExpWire(c, w) == [i \in 1..Len(w.visited) |-> <<NumOf(w.visited[i]), c[w.visited[i]], HL[w.visited[i]]>>]

WriteMism(c, w, r, tag, base) ==
  WalkMism(w, r, tag)
  \cup (IF w.status = "ok" /\ r.k = "ok" /\ r.wire # ExpWire(c, w) THEN {tag \o ".bytes"} ELSE {})
  \cup (IF w.status = "ok" /\ r.k = "ok" /\ r.n # base + TotalLen(c, HL) THEN {tag \o ".len"} ELSE {})

EvMism(e) ==
  LET c == Cfg(e)  w == Walk(c, e.first)
      sr == SetNextHeaders(c, 17)  sw == Walk(sr[1], sr[2])
      v4c == [s \in SlotSet |-> IF s = "auth" THEN c.auth ELSE -1]
      \* IPv4: only the authentication header; reference = the same walk restricted to the auth slot
      v4w == Walk(v4c, e.first)
  IN
  WalkMism(w, e.next_header, "next_header")
  \cup WriteMism(c, w, e.write, "write", 0)
  \cup (IF e.header_len # TotalLen(c, HL) THEN {"header_len"} ELSE {})
  \* write succeeds exactly when walking succeeds (both observed, independent of the model)
  \cup (IF e.next_header.k # "panic" /\ e.write.k # "panic" /\ (e.next_header.k = "ok") # (e.write.k = "ok") THEN {"write_iff_walk"} ELSE {})
  \* decoding the written bytes
  \cup (IF w.status = "ok" /\ e.write.k = "ok" /\ w.next \notin ExtNums
        THEN (IF e.decode.k # "ok" THEN {"decode.failed"}
              ELSE (IF Lnk(e.decode.links) # c THEN {"decode.links"} ELSE {})
                   \cup (IF e.decode.final # w.next THEN {"decode.final"} ELSE {})
                   \cup (IF e.decode.rest # 4 THEN {"decode.rest"} ELSE {})
                   \cup (IF e.decode.same # 1 THEN {"decode.value"} ELSE {})
                   \* every decoder of the written bytes gives the same set and final number: read, read_limited, from_slice_lax, the slice family
                   \cup {<<"decode.read", "decode.read_limited", "decode.from_slice_lax", "decode.slice_family", "decode.ip_headers_from_slice", "decode.ip_headers_read",
                          "decode.ip_slice_to_header", "decode.ip_headers_from_slice_lax", "decode.lax_ip_slice">>[i] : i \in {j \in 1..Len(e.decode.doors) : e.decode.doors[j] # 1}}
                   \cup (IF \E s \in SlotSet : e.decode.lens[s] # (IF c[s] = -1 THEN -1 ELSE HL[s]) THEN {"decode.slot_mixup"} ELSE {}))
        ELSE {})
  \* set_next_headers(17)
  \cup (IF e.set.first # sr[2] \/ Lnk(e.set.links) # sr[1] THEN {"set.links"} ELSE {})
  \cup WalkMism(sw, e.set.next_header, "set.next_header")
  \cup WriteMism(sr[1], sw, e.set.write, "set.write", 0)
  \cup (IF sw.status # "ok" \/ sw.next # 17 THEN {"SPEC.SetThenWalk"} ELSE {})
  \* through IpHeaders / NetHeaders
  \cup WalkMism(w, e.iph_next, "iph_next")
  \cup WriteMism(c, w, e.iph_write, "iph_write", 40)
  \cup (IF e.iph_len # 40 + TotalLen(c, HL) THEN {"iph_len"} ELSE {})
  \cup (IF e.iph_set.first # sr[2] \/ Lnk(e.iph_set.links) # sr[1] THEN {"iph_set.first"} ELSE {})
  \* NetHeaders::try_set_next_headers links the chain like set_next_headers does, whatever the links were before
  \cup (IF e.iph_set.net_first # sr[2] \/ Lnk(e.iph_set.net_links) # sr[1] THEN {"net_set.links"} ELSE {})
  \cup (IF e.iph_set.et # ET_IPV6 THEN {"iph_set.ether_type"} ELSE {})
  \cup (IF e.iph_set.net_et # ET_IPV6 THEN {"net_set.ether_type"} ELSE {})
  \* IPv4 analogue
  \cup WalkMism(v4w, e.v4.next, "v4.next_header")
  \cup WalkMism(v4w, e.v4.write, "write")
  \cup WalkMism(v4w, e.v4.iph_next, "v4.iph_next")
  \cup WalkMism(v4w, e.v4.iph_write, "iph_write")
  \cup (IF v4w.status = "ok" /\ e.v4.iph_write.k = "ok" /\ e.v4.iph_write.n # 20 + (IF c.auth = -1 THEN 0 ELSE 16) THEN {"v4.iph_write.len"} ELSE {})
  \cup (IF e.v4.iph_len # 20 + (IF c.auth = -1 THEN 0 ELSE 16) THEN {"v4.iph_len"} ELSE {})
  \cup (IF v4w.status = "ok" /\ e.v4.write.k = "ok" /\ e.v4.write.n # (IF c.auth = -1 THEN 0 ELSE 16) THEN {"v4.write.len"} ELSE {})
  \cup (IF e.v4.len # (IF c.auth = -1 THEN 0 ELSE 16) THEN {"v4.header_len"} ELSE {})
  \cup (IF e.v4.set_et # ET_IPV4 \/ e.v4.net_et # ET_IPV4 THEN {"v4.set.ether_type"} ELSE {})
  \cup (IF e.v4.set_first # (IF c.auth = -1 THEN 17 ELSE AUTH) THEN {"v4.set.first"} ELSE {})

VARIABLES l, bad
TraceInit == l = 1 /\ bad = {}
TraceNext == /\ l <= Len(Rec)
             /\ bad' = bad \cup {<<Rec[l].id, t>> : t \in EvMism(Rec[l])}
             /\ l' = l + 1
TraceSpec == TraceInit /\ [][TraceNext]_<<l, bad>>
TraceAccepted == TLCGet("stats").diameter - 1 = Len(Rec)
Report == (l = Len(Rec) + 1) => PrintT(<<"TRACE-RESULT", ToJson([events |-> Len(Rec), bad |-> bad, known |-> {}])>>)
====
