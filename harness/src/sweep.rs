//! Accessor sweep (C01/C02): every single-layer decoder of the crate is tried on the bytes and EVERY
//! accessor, conversion and iterator of the value it returns is called.  The sweep has no value oracle of
//! its own: what it records is (a) whether every returned sub-slice lies inside the input, (b) a digest of
//! all accessor outputs, which must be identical when the same bytes are decoded at another address with
//! different surrounding bytes and flush against a guard page (a read outside the input changes the digest
//! or faults), (c) panics.
use crate::proj::Ctx;
use etherparse::*;
use std::fmt::Debug;
use std::hash::{Hash, Hasher};

pub struct Acc<'c> {
    pub ctx: &'c Ctx,
    h: std::collections::hash_map::DefaultHasher,
    pub n: u64,
    /// names of equivalences between two doors to the same decoder that did not hold
    pub mism: Vec<String>,
}
impl<'c> Acc<'c> {
    pub fn new(ctx: &'c Ctx) -> Acc<'c> {
        Acc { ctx, h: std::collections::hash_map::DefaultHasher::new(), n: 0, mism: vec![] }
    }
    pub fn d<T: Debug>(&mut self, v: T) {
        format!("{:?}", v).hash(&mut self.h);
        self.n += 1;
    }
    /// an error value: Display and Debug rendering (C02)
    pub fn e<T: std::error::Error>(&mut self, v: T) {
        format!("{}", v).hash(&mut self.h);
        if let Some(src) = v.source() {
            format!("{} {:?}", src, src).hash(&mut self.h);
        }
        self.d(v);
    }
    /// a result: the value through Debug, the error through Display, Debug and its source chain (rendering an error is part of totality)
    pub fn r<T: std::fmt::Debug, E: std::error::Error>(&mut self, v: Result<T, E>) {
        match v {
            Ok(x) => self.d(x),
            Err(e) => self.e(e),
        }
    }
    /// a returned sub-slice: range relative to the input (flags out-of-bounds) + contents
    pub fn s(&mut self, s: &[u8]) {
        self.ctx.rg(s).hash(&mut self.h);
        s.hash(&mut self.h);
        self.n += 1;
    }
    /// something that is wrong whatever the bytes are (e.g. an iterator that does not stop)
    pub fn flag(&mut self, name: &str) {
        if !self.mism.iter().any(|m| m == name) {
            self.mism.push(name.to_string());
        }
    }
    /// two doors to the same decoder (e.g. a deprecated alias) must give the same answer
    pub fn same<T: PartialEq + Debug>(&mut self, name: &str, x: T, y: T) {
        if x != y && !self.mism.iter().any(|m| m == name) {
            self.mism.push(name.to_string());
        }
        self.d(x);
    }
    pub fn finish(self) -> (i64, u64, Vec<String>) {
        ((self.h.finish() % (1u64 << 31)) as i64, self.n, self.mism)
    }
}

fn sw_link(a: &mut Acc, b: &[u8]) {
    if let Ok(x) = Ethernet2HeaderSlice::from_slice(b) {
        a.s(x.slice()); a.d(x.destination()); a.d(x.source()); a.d(x.ether_type()); a.d(x.to_header());
    }
    for fcs in [false, true] {
        let r = if fcs { Ethernet2Slice::from_slice_with_crc32_fcs(b) } else { Ethernet2Slice::from_slice_without_fcs(b) };
        match r {
            Ok(x) => {
                a.s(x.slice()); a.d(x.destination()); a.d(x.source()); a.d(x.ether_type()); a.d(x.fcs()); a.d(x.to_header());
                a.s(x.header_slice()); a.s(x.payload_slice()); a.s(x.payload().payload); a.d(x.payload());
            }
            Err(e) => a.e(e),
        }
    }
    if let Ok((h, rest)) = Ethernet2Header::from_slice(b) {
        a.d(h); a.s(rest);
    }
    match LinuxSllHeaderSlice::from_slice(b) {
        Ok(x) => {
            a.s(x.slice()); a.d(x.packet_type()); a.d(x.arp_hardware_type()); a.d(x.sender_address_valid_length());
            a.d(x.sender_address_full()); a.s(x.sender_address()); a.d(x.protocol_type()); a.d(x.to_header());
        }
        Err(e) => a.e(e),
    }
    match LinuxSllSlice::from_slice(b) {
        Ok(x) => {
            a.s(x.slice()); a.d(x.packet_type()); a.d(x.arp_hardware_type()); a.d(x.sender_address_valid_length());
            a.d(x.sender_address_full()); a.s(x.sender_address()); a.d(x.protocol_type()); a.d(x.to_header());
            a.s(x.header_slice()); a.s(x.payload_slice()); a.s(x.payload().payload); a.d(x.payload());
        }
        Err(e) => a.e(e),
    }
    if let Ok((h, rest)) = LinuxSllHeader::from_slice(b) {
        a.d(h); a.s(rest);
    }
    match SingleVlanHeaderSlice::from_slice(b) {
        Ok(x) => {
            a.s(x.slice()); a.d(x.priority_code_point()); a.d(x.drop_eligible_indicator()); a.d(x.vlan_identifier()); a.d(x.ether_type()); a.d(x.to_header());
        }
        Err(e) => a.e(e),
    }
    match SingleVlanSlice::from_slice(b) {
        Ok(x) => {
            a.s(x.slice()); a.d(x.priority_code_point()); a.d(x.drop_eligible_indicator()); a.d(x.vlan_identifier()); a.d(x.ether_type()); a.d(x.to_header());
            a.s(x.header_slice()); a.s(x.payload_slice()); a.s(x.payload().payload);
        }
        Err(e) => a.e(e),
    }
    if let Ok((h, rest)) = SingleVlanHeader::from_slice(b) {
        a.d(h); a.s(rest);
    }
    match MacsecHeaderSlice::from_slice(b) {
        Ok(x) => {
            a.s(x.slice()); a.d(x.tci_an_raw()); a.d(x.endstation_id()); a.d(x.tci_scb()); a.d(x.encrypted()); a.d(x.userdata_changed());
            a.d(x.is_unmodified()); a.d(x.ptype()); a.d(x.an()); a.d(x.short_len()); a.d(x.packet_nr()); a.d(x.sci_present()); a.d(x.sci());
            a.d(x.next_ether_type()); a.d(x.header_len()); a.d(x.expected_payload_len()); a.d(x.to_header());
        }
        Err(e) => a.e(e),
    }
    match MacsecSlice::from_slice(b) {
        Ok(x) => {
            a.s(x.header.slice()); a.d(x.next_ether_type()); a.d(x.ether_payload());
            match &x.payload {
                MacsecPayloadSlice::Unmodified(e) => a.s(e.payload),
                MacsecPayloadSlice::Modified(s) => a.s(s),
            }
        }
        Err(e) => a.e(e),
    }
    match LaxMacsecSlice::from_slice(b) {
        Ok(x) => {
            a.s(x.header.slice()); a.d(x.next_ether_type()); a.d(x.ether_payload());
            match &x.payload {
                LaxMacsecPayloadSlice::Unmodified(e) => a.s(e.payload),
                LaxMacsecPayloadSlice::Modified { payload, incomplete } => {
                    a.s(payload); a.d(incomplete);
                }
            }
        }
        Err(e) => a.e(e),
    }
    a.r(MacsecHeader::from_slice(b));
}

/// the provided methods of Iterator (count, last, nth, fold, size_hint) may be specialised by an iterator type: they must terminate and
/// agree with what repeated next() calls yield
fn sw_iter<I: Iterator + Clone>(a: &mut Acc, it: &I)
where
    I::Item: Debug,
{
    const CAP: usize = 400;
    let n = { let mut c = it.clone(); let mut n = 0; while n < CAP && c.next().is_some() { n += 1; } n };
    if n >= CAP {
        a.flag("c02.unbounded_iteration");
        return;
    }
    let items: Vec<String> = it.clone().take(CAP).map(|x| format!("{:?}", x)).collect();
    let (lo, hi) = it.size_hint();
    let ok = it.clone().count() == n
        && it.clone().fold(0usize, |c, _| c + 1) == n
        && it.clone().last().map(|x| format!("{:?}", x)) == items.last().cloned()
        && it.clone().nth(0).map(|x| format!("{:?}", x)) == items.first().cloned()
        && it.clone().nth(n).is_none()
        && (n == 0 || it.clone().nth(n - 1).map(|x| format!("{:?}", x)) == items.last().cloned())
        && lo <= n
        && hi.map(|h| n <= h).unwrap_or(true);
    if !ok {
        a.flag("c02.iterator_methods_disagree");
    }
}

fn sw_opts(a: &mut Acc, it: TcpOptionsIterator) {
    sw_iter(a, &it);
    let mut it = it;
    let mut budget = 64;
    loop {
        a.s(it.rest());
        match it.next() {
            None => break,
            Some(x) => a.d(x),
        }
        budget -= 1;
        if budget == 0 {
            a.flag("c02.unbounded_iteration");
            break;
        }
    }
    a.d(it.next());
}

fn sw_net(a: &mut Acc, b: &[u8]) {
    match Ipv4HeaderSlice::from_slice(b) {
        Ok(x) => {
            a.s(x.slice()); a.d(x.version()); a.d(x.ihl()); a.d(x.dcp()); a.d(x.ecn()); a.d(x.total_len()); a.d(x.payload_len());
            a.d(x.identification()); a.d(x.dont_fragment()); a.d(x.more_fragments()); a.d(x.fragments_offset()); a.d(x.ttl());
            a.d(x.protocol()); a.d(x.header_checksum()); a.d(x.source()); a.d(x.source_addr()); a.d(x.destination()); a.d(x.destination_addr());
            a.s(x.options()); a.d(x.is_fragmenting_payload()); a.d(x.to_header());
        }
        Err(e) => a.e(e),
    }
    if let Ok((h, rest)) = Ipv4Header::from_slice(b) {
        a.d(h); a.s(rest);
    }
    match Ipv6HeaderSlice::from_slice(b) {
        Ok(x) => {
            a.s(x.slice()); a.d(x.version()); a.d(x.traffic_class()); a.d(x.ecn()); a.d(x.dscp()); a.d(x.flow_label()); a.d(x.payload_length());
            a.d(x.next_header()); a.d(x.hop_limit()); a.d(x.source()); a.d(x.source_addr()); a.d(x.destination()); a.d(x.destination_addr()); a.d(x.to_header());
        }
        Err(e) => a.e(e),
    }
    if let Ok((h, rest)) = Ipv6Header::from_slice(b) {
        a.d(h); a.s(rest);
    }
    match Ipv6RawExtHeaderSlice::from_slice(b) {
        Ok(x) => {
            a.s(x.slice()); a.d(x.next_header()); a.s(x.payload()); a.d(x.to_header());
        }
        Err(e) => a.e(e),
    }
    if let Ok((h, rest)) = Ipv6RawExtHeader::from_slice(b) {
        a.d(h); a.s(rest);
    }
    match Ipv6FragmentHeaderSlice::from_slice(b) {
        Ok(x) => {
            a.s(x.slice()); a.d(x.next_header()); a.d(x.fragment_offset()); a.d(x.more_fragments()); a.d(x.identification());
            a.d(x.is_fragmenting_payload()); a.d(x.to_header());
        }
        Err(e) => a.e(e),
    }
    if let Ok((h, rest)) = Ipv6FragmentHeader::from_slice(b) {
        a.d(h); a.s(rest);
    }
    match IpAuthHeaderSlice::from_slice(b) {
        Ok(x) => {
            a.s(x.slice()); a.d(x.next_header()); a.d(x.spi()); a.d(x.sequence_number()); a.s(x.raw_icv()); a.d(x.to_header());
        }
        Err(e) => a.e(e),
    }
    if let Ok((h, rest)) = IpAuthHeader::from_slice(b) {
        a.d(h); a.s(rest);
    }
    for nh in [0u8, 43, 44, 51, 60] {
        match Ipv6ExtensionsSlice::from_slice(IpNumber(nh), b) {
            Ok((x, n, rest)) => {
                a.s(x.slice()); a.d(x.first_header()); a.d(x.is_fragmenting_payload()); a.d(n); a.s(rest);
                sw_iter(a, &x.clone().into_iter());
                for (i, e) in x.clone().into_iter().enumerate() {
                    a.d(e);
                    if i > 300 {
                        a.flag("c02.unbounded_iteration");
                        break;
                    }
                }
            }
            Err(e) => a.e(e),
        }
        let (x, n, rest, st) = Ipv6ExtensionsSlice::from_slice_lax(IpNumber(nh), b);
        a.s(x.slice()); a.d(x.first_header()); a.d(x.is_fragmenting_payload()); a.d(n); a.s(rest); a.d(st);
        sw_iter(a, &x.clone().into_iter());
        for (i, e) in x.clone().into_iter().enumerate() {
            a.d(e);
            if i > 300 {
                a.flag("c02.unbounded_iteration");
                break;
            }
        }
        a.r(Ipv6Extensions::from_slice(IpNumber(nh), b).map(|(e, n, r)| (e, n, r.len())));
        let l = Ipv6Extensions::from_slice_lax(IpNumber(nh), b);
        a.d((l.0, l.1, l.2.len(), l.3));
    }
    // the skip helpers of the IPv6 header: slice and reader versions, for every skippable number (and one that is not)
    for nh in [0u8, 43, 44, 51, 60, 135, 139, 140, 17] {
        match Ipv6Header::skip_header_extension_in_slice(b, IpNumber(nh)) { Ok((n, rest)) => { a.d(n); a.s(rest); } Err(e) => a.e(e) }
        match Ipv6Header::skip_all_header_extensions_in_slice(b, IpNumber(nh)) { Ok((n, rest)) => { a.d(n); a.s(rest); } Err(e) => a.e(e) }
        let mut c = std::io::Cursor::new(b);
        a.d(Ipv6Header::skip_header_extension(&mut c, IpNumber(nh)).map_err(|e| e.kind()));
        let mut c = std::io::Cursor::new(b);
        a.d(Ipv6Header::skip_all_header_extensions(&mut c, IpNumber(nh)).map_err(|e| e.kind()));
    }
    a.r(Ipv4ExtensionsSlice::from_slice(IpNumber(51), b).map(|(e, n, r)| (e.to_header(), n, r.len())));
    let l = Ipv4ExtensionsSlice::from_slice_lax(IpNumber(51), b);
    a.d((l.0.to_header(), l.1, l.2.len(), l.3));
    a.r(Ipv4Extensions::from_slice(IpNumber(51), b).map(|(e, n, r)| (e, n, r.len())));
    match ArpPacketSlice::from_slice(b) {
        Ok(x) => {
            a.s(x.slice()); a.d(x.hw_addr_type()); a.d(x.proto_addr_type()); a.d(x.hw_addr_size()); a.d(x.proto_addr_size()); a.d(x.operation());
            a.s(x.sender_hw_addr()); a.s(x.sender_protocol_addr()); a.s(x.target_hw_addr()); a.s(x.target_protocol_addr()); a.d(x.to_packet());
        }
        Err(e) => a.e(e),
    }
    a.r(ArpPacket::from_slice(b));
    match Ipv6Slice::from_slice_lax(b) {
        Ok(x) => {
            a.s(x.header().slice()); a.s(x.extensions().slice()); a.s(x.payload().payload); a.d(x.payload());
        }
        Err(e) => a.e(e),
    }
}

fn sw_transport(a: &mut Acc, b: &[u8]) {
    match UdpHeaderSlice::from_slice(b) {
        Ok(x) => {
            a.s(x.slice()); a.d(x.source_port()); a.d(x.destination_port()); a.d(x.length()); a.d(x.checksum()); a.d(x.to_header());
        }
        Err(e) => a.e(e),
    }
    for lax in [false, true] {
        let r = if lax { UdpSlice::from_slice_lax(b) } else { UdpSlice::from_slice(b) };
        match r {
            Ok(x) => {
                a.s(x.slice()); a.s(x.header_slice()); a.s(x.payload()); a.d(x.payload_len_source()); a.d(x.source_port()); a.d(x.destination_port());
                a.d(x.length()); a.d(x.checksum()); a.d(x.to_header());
            }
            Err(e) => a.e(e),
        }
    }
    if let Ok((h, rest)) = UdpHeader::from_slice(b) {
        a.d(h); a.s(rest);
    }
    match TcpHeaderSlice::from_slice(b) {
        Ok(x) => {
            a.s(x.slice()); a.d(x.source_port()); a.d(x.destination_port()); a.d(x.sequence_number()); a.d(x.acknowledgment_number()); a.d(x.data_offset());
            a.d((x.ns(), x.fin(), x.syn(), x.rst(), x.psh(), x.ack(), x.urg(), x.ece(), x.cwr())); a.d(x.window_size()); a.d(x.checksum()); a.d(x.urgent_pointer());
            a.s(x.options()); sw_opts(a, x.options_iterator()); a.d(x.to_header());
        }
        Err(e) => a.e(e),
    }
    match TcpSlice::from_slice(b) {
        Ok(x) => {
            a.s(x.slice()); a.s(x.header_slice()); a.s(x.payload()); a.d(x.source_port()); a.d(x.destination_port()); a.d(x.sequence_number());
            a.d(x.acknowledgment_number()); a.d(x.data_offset()); a.d((x.ns(), x.fin(), x.syn(), x.rst(), x.psh(), x.ack(), x.urg(), x.ece(), x.cwr()));
            a.d(x.window_size()); a.d(x.checksum()); a.d(x.urgent_pointer()); a.s(x.options()); sw_opts(a, x.options_iterator()); a.d(x.to_header());
            a.r(x.calc_checksum_ipv4([1, 2, 3, 4], [5, 6, 7, 8])); a.r(x.calc_checksum_ipv6([1; 16], [2; 16]));
        }
        Err(e) => a.e(e),
    }
    if let Ok((h, rest)) = TcpHeader::from_slice(b) {
        a.d(h); a.s(rest);
    }
    match Icmpv4Slice::from_slice(b) {
        Ok(x) => {
            a.s(x.slice()); a.d(x.header()); a.d(x.header_len()); a.d(x.icmp_type()); a.d(x.type_u8()); a.d(x.code_u8()); a.d(x.checksum()); a.d(x.bytes5to8()); a.s(x.payload());
        }
        Err(e) => a.e(e),
    }
    a.r(Icmpv4Header::from_slice(b).map(|(h, r)| (h, r.len())));
    match Icmpv6Slice::from_slice(b) {
        Ok(x) => {
            a.s(x.slice()); a.d(x.header()); a.d(x.header_len()); a.d(x.icmp_type()); a.d(x.type_u8()); a.d(x.code_u8()); a.d(x.checksum()); a.d(x.bytes5to8());
            a.s(x.payload()); a.d(x.is_checksum_valid([1; 16], [2; 16])); a.r(x.payload_slice());
        }
        Err(e) => a.e(e),
    }
    a.r(Icmpv6Header::from_slice(b).map(|(h, r)| (h, r.len())));
    // neighbour discovery option areas: behind the ICMPv6 header and behind each possible fixed part
    for off in [8usize, 16, 24, 40] {
        if b.len() >= off {
            let mut it = icmpv6::NdpOptionsIterator::from_slice(&b[off..]);
            sw_iter(a, &it);
            let mut budget = 80;
            loop {
                a.s(it.rest());
                match it.next() {
                    None => break,
                    Some(Ok(o)) => {
                        a.s(o.as_bytes());
                        a.d(o);
                    }
                    Some(Err(e)) => a.e(e),
                }
                budget -= 1;
                if budget == 0 {
                    a.flag("c02.unbounded_iteration");
                    break;
                }
            }
            a.d(it.next());
        }
    }
    a.r(IgmpHeader::from_slice(b).map(|(h, r)| (h, r.len())));
}

/// returns (digest, number of accessor results)
fn sw_ip_headers_slice(a: &mut Acc, h: &IpHeadersSlice) {
    a.d(h.is_ipv4()); a.d(h.is_ipv6()); a.s(h.slice()); a.d(h.source_addr()); a.d(h.destination_addr()); a.d(h.next_header());
    a.d(h.payload_ip_number()); a.d(h.version()); a.d(h.header_len()); a.r(h.try_to_header());
    if let Some(x) = h.ipv4() { a.s(x.slice()); }
    if let Some(x) = h.ipv4_exts() { a.d(x.to_header()); a.d(x.is_empty()); }
    if let Some(x) = h.ipv6() { a.s(x.slice()); }
    if let Some(x) = h.ipv6_exts() { a.s(x.slice()); a.d(x.is_fragmenting_payload()); }
}
fn sw_vlan_slice(a: &mut Acc, v: &Option<VlanSlice>) {
    if let Some(v) = v {
        a.d(v.to_header()); a.d(v.to_header().next_header()); a.s(v.payload().payload); a.d(v.payload());
        if let VlanSlice::DoubleVlan(d) = v { a.d(d.to_header()); a.s(d.outer.slice()); a.s(d.inner.slice()); }
    } else {
        a.d(0);
    }
}
/// whole-packet results and the IP boundary types: every convenience accessor and conversion
#[allow(deprecated)]
fn sw_packet(a: &mut Acc, b: &[u8]) {
    match IpSlice::from_slice(b) {
        Ok(x) => {
            a.d(x.ipv4().is_some()); a.d(x.ipv6().is_some()); sw_ip_headers_slice(a, &x.header()); a.d(x.to_header()); a.d(x.is_fragmenting_payload());
            a.d(x.source_addr()); a.d(x.destination_addr()); a.s(x.payload().payload); a.d(x.payload()); a.d(x.payload_ip_number());
            if let Some(v) = x.ipv4() { a.d(v.payload_ip_number()); a.d(v.is_payload_fragmented()); sw_ip_headers_slice(a, &IpHeadersSlice::from((v.header(), v.extensions()))); sw_ip_headers_slice(a, &IpHeadersSlice::from(v.header())); }
            if let Some(v) = x.ipv6() { a.d(v.is_payload_fragmented()); sw_ip_headers_slice(a, &IpHeadersSlice::from((v.header(), v.extensions().clone()))); sw_ip_headers_slice(a, &IpHeadersSlice::from(v.header())); }
            let n = match &x { IpSlice::Ipv4(v) => NetSlice::from(v.clone()), IpSlice::Ipv6(v) => NetSlice::from(v.clone()) };
            a.d(n.is_ip()); a.d(n.is_ipv4()); a.d(n.is_ipv6()); a.d(n.is_arp()); a.d(n.ipv4_ref().is_some()); a.d(n.ipv6_ref().is_some()); a.d(n.arp_ref().is_some());
            if let Some(p) = n.ip_payload_ref() { a.s(p.payload); a.d(p); }
            a.d(match x.clone() { IpSlice::Ipv4(v) => IpSlice::from(v), IpSlice::Ipv6(v) => IpSlice::from(v) } == x);
        }
        Err(e) => a.e(e),
    }
    match LaxIpSlice::from_slice(b) {
        Ok((x, st)) => {
            a.d(x.ipv4().is_some()); a.d(x.ipv6().is_some()); a.d(x.is_fragmenting_payload()); a.d(x.source_addr()); a.d(x.destination_addr());
            a.s(x.payload().payload); a.d(x.payload()); a.d(x.payload_ip_number()); a.d(st);
            if let Some(v) = x.ipv4() { a.d(v.payload_ip_number()); a.d(v.is_payload_fragmented()); }
            if let Some(v) = x.ipv6() { a.d(v.is_payload_fragmented()); }
            let n = match &x { LaxIpSlice::Ipv4(v) => LaxNetSlice::from(v.clone()), LaxIpSlice::Ipv6(v) => LaxNetSlice::from(v.clone()) };
            if let Some(p) = n.ip_payload_ref() { a.s(p.payload); a.d(p); }
            a.d(match x.clone() { LaxIpSlice::Ipv4(v) => LaxIpSlice::from(v), LaxIpSlice::Ipv6(v) => LaxIpSlice::from(v) } == x);
        }
        Err(e) => a.e(e),
    }
    let mut strict = vec![SlicedPacket::from_ethernet(b).ok(), SlicedPacket::from_linux_sll(b).ok(), SlicedPacket::from_ip(b).ok()];
    for et in [0x0800u16, 0x86dd, 0x8100, 0x88e5, 0x0806] {
        strict.push(SlicedPacket::from_ether_type(EtherType(et), b).ok());
    }
    for x in strict.iter().flatten() {
        a.d(x.payload_ether_type());
        match x.ether_payload() { Some(p) => { a.s(p.payload); a.d(p); } None => a.d(0) }
        match x.ip_payload() { Some(p) => { a.s(p.payload); a.d(p); } None => a.d(0) }
        a.d(x.is_ip_payload_fragmented()); sw_vlan_slice(a, &x.vlan()); a.d(x.vlan_ids());
        if let Some(l) = &x.link {
            a.d(l.to_header()); match l.ether_payload() { Some(p) => { a.s(p.payload); a.d(p); } None => a.d(0) }
            if let Some(h) = l.to_header() {
                a.d(h.header_len()); let mut w: Vec<u8> = vec![]; a.d(h.write(&mut w).is_ok()); a.d(w);
                a.d(h.clone().ethernet2()); a.d(h.clone().linux_sll());
                let mut m = h.clone(); a.d(m.mut_ethernet2().is_some()); a.d(m.mut_linux_sll().is_some());
            }
        }
        for e in &x.link_exts {
            a.d(e.header_len()); a.d(e.to_header()); a.d(e.to_header().header_len());
            match e.ether_payload() { Some(p) => { a.s(p.payload); a.d(p); } None => a.d(0) }
            if let LinkExtSlice::Macsec(m) = e { a.d(m.header.to_header().next_ether_type()); a.d(m.header.to_header().expected_payload_len()); }
        }
        if let Some(t) = &x.transport {
            match t { TransportSlice::Tcp(t) => a.d(t.header_len()), TransportSlice::Udp(u) => { a.d(u.header_len()); a.d(u.header_len_u16()); } _ => a.d(0) }
        }
    }
    let mut lax = vec![LaxSlicedPacket::from_ethernet(b).ok(), LaxSlicedPacket::from_ip(b).ok()];
    for et in [0x0800u16, 0x86dd, 0x8100, 0x88e5, 0x0806] {
        lax.push(Some(LaxSlicedPacket::from_ether_type(EtherType(et), b)));
    }
    for x in lax.iter().flatten() {
        match x.ether_payload() { Some(p) => { a.s(p.payload); a.d(p); } None => a.d(0) }
        match x.ip_payload() { Some(p) => { a.s(p.payload); a.d(p); } None => a.d(0) }
        sw_vlan_slice(a, &x.vlan()); a.d(x.vlan_ids());
        for e in &x.link_exts {
            a.d(e.header_len()); a.d(e.to_header());
            match e.payload() { Some(p) => { a.s(p.payload); a.d(p); } None => a.d(0) }
        }
    }
    let hs = vec![PacketHeaders::from_ethernet_slice(b).ok(), PacketHeaders::from_ip_slice(b).ok(), PacketHeaders::from_ether_type(EtherType(0x8100), b).ok()];
    for x in hs.iter().flatten() {
        a.d(x.vlan()); a.d(x.vlan_ids());
        if let Some(n) = &x.net {
            a.d(n.is_ip()); a.d(n.is_ipv4()); a.d(n.is_ipv6()); a.d(n.is_arp()); a.d(n.ipv4_ref()); a.d(n.ipv6_ref()); a.d(n.arp_ref()); a.d(n.header_len());
            if let NetHeaders::Ipv4(h, _) = n { a.d(h.payload_len()); a.d(h.options()); }
        }
        if let Some(t) = &x.transport {
            let mut w: Vec<u8> = vec![]; a.d(t.write(&mut w).is_ok()); a.d(w); a.d(t.header_len());
            let mut m = t.clone(); a.d(m.mut_udp().is_some()); a.d(m.mut_tcp().is_some()); a.d(m.mut_icmpv4().is_some()); a.d(m.mut_icmpv6().is_some());
            if let TransportHeader::Tcp(t) = t { a.d(t.options_len()); a.d(t.options()); a.d(t.options.is_empty()); }
        }
    }
    let lh = vec![LaxPacketHeaders::from_ethernet(b).ok(), LaxPacketHeaders::from_ip(b).ok(), Some(LaxPacketHeaders::from_ether_type(EtherType(0x8100), b))];
    for x in lh.iter().flatten() {
        a.d(x.vlan()); a.d(x.vlan_ids());
    }
}

/// single-layer doors against the layers of the whole-packet result they are part of (same bytes, same answer)
fn sw_layer_doors(a: &mut Acc, b: &[u8]) {
    // Ethernet II with a frame check sequence: the last four bytes are the FCS, everything between header and FCS the payload
    if let Ok(e) = Ethernet2Slice::from_slice_with_crc32_fcs(b) {
        let n = b.len();
        a.same("Ethernet2Slice::from_slice_with_crc32_fcs", (a.ctx.rg(e.payload_slice()), e.fcs(), a.ctx.rg(e.header_slice()), e.ether_type().0),
               ((14, n as i64 - 18), Some([b[n - 4], b[n - 3], b[n - 2], b[n - 1]]), (0, 14), u16::from_be_bytes([b[12], b[13]])));
    } else {
        a.same("Ethernet2Slice::from_slice_with_crc32_fcs.rejects", b.len() < 18, true);
    }
    if let Ok(e) = Ethernet2Slice::from_slice_without_fcs(b) {
        a.same("Ethernet2Slice::from_slice_without_fcs", (a.ctx.rg(e.payload_slice()), e.fcs()), ((14, b.len() as i64 - 14), None));
    }
    if let Ok(x) = SlicedPacket::from_ethernet(b) {
        let mut prev = x.link.as_ref().and_then(|l| l.ether_payload());
        for e in &x.link_exts {
            if let Some(p) = &prev {
                match e {
                    LinkExtSlice::Vlan(v) => a.same("SingleVlanSlice::from_slice", SingleVlanSlice::from_slice(p.payload).ok().as_ref().map(|y| y.slice()), Some(v.slice())),
                    LinkExtSlice::Macsec(m) => a.same("MacsecSlice::from_slice", MacsecSlice::from_slice(p.payload).ok().map(|y| (a.ctx.rg(y.header.slice()), format!("{:?}", y.payload))),
                                                      Some((a.ctx.rg(m.header.slice()), format!("{:?}", m.payload)))),
                }
            }
            prev = e.ether_payload();
        }
        if let (Some(p), Some(n)) = (&prev, &x.net) {
            match n {
                NetSlice::Ipv4(i) => a.same("Ipv4Slice::from_slice", Ipv4Slice::from_slice(p.payload).ok().as_ref(), Some(i)),
                NetSlice::Ipv6(i) => a.same("Ipv6Slice::from_slice", Ipv6Slice::from_slice(p.payload).ok().as_ref(), Some(i)),
                NetSlice::Arp(r) => a.same("ArpPacketSlice::from_slice", ArpPacketSlice::from_slice(p.payload).ok().as_ref(), Some(r)),
            }
        }
        if let (Some(ip), Some(t)) = (x.ip_payload(), &x.transport) {
            match t {
                TransportSlice::Udp(u) => a.same("UdpSlice::from_slice", UdpSlice::from_slice(ip.payload).ok().as_ref(), Some(u)),
                TransportSlice::Tcp(u) => a.same("TcpSlice::from_slice", TcpSlice::from_slice(ip.payload).ok().as_ref(), Some(u)),
                TransportSlice::Icmpv4(u) => a.same("Icmpv4Slice::from_slice", Icmpv4Slice::from_slice(ip.payload).ok().as_ref(), Some(u)),
                TransportSlice::Icmpv6(u) => a.same("Icmpv6Slice::from_slice", Icmpv6Slice::from_slice(ip.payload).ok().as_ref(), Some(u)),
            }
        }
    }
    if let Ok(x) = LaxSlicedPacket::from_ethernet(b) {
        let mut prev = x.link.as_ref().and_then(|l| l.ether_payload()).map(|p| p.payload);
        for e in &x.link_exts {
            if let Some(p) = prev {
                if let LaxLinkExtSlice::Macsec(m) = e {
                    a.same("LaxMacsecSlice::from_slice", LaxMacsecSlice::from_slice(p).ok().map(|y| (a.ctx.rg(y.header.slice()), format!("{:?}", y.payload))),
                           Some((a.ctx.rg(m.header.slice()), format!("{:?}", m.payload))));
                }
            }
            prev = e.payload().map(|p| p.payload);
        }
        if let (Some(ip), Some(TransportSlice::Udp(u))) = (x.ip_payload(), &x.transport) {
            a.same("UdpSlice::from_slice_lax", UdpSlice::from_slice_lax(ip.payload).ok().as_ref(), Some(u));
        }
        if let (Some(p), Some(n)) = (prev, &x.net) {
            match n {
                LaxNetSlice::Ipv4(i) => a.same("LaxIpv4Slice::from_slice", LaxIpv4Slice::from_slice(p).ok().map(|y| y.0).as_ref(), Some(i)),
                LaxNetSlice::Ipv6(i) => {
                    a.same("LaxIpv6Slice::from_slice", LaxIpv6Slice::from_slice(p).ok().map(|y| y.0).as_ref(), Some(i));
                    // the extension chain on its own: same headers, same ip number behind them
                    let after = &p[40.min(p.len())..];
                    let lim = if i.header().payload_length() == 0 || usize::from(i.header().payload_length()) > after.len() { after.len() } else { usize::from(i.header().payload_length()) };
                    let (e2, n2, _, _) = Ipv6ExtensionsSlice::from_slice_lax(i.header().next_header(), &after[..lim]);
                    a.same("Ipv6ExtensionsSlice::from_slice_lax", (e2.slice(), n2), (i.extensions().slice(), i.payload().ip_number));
                }
                _ => {}
            }
        }
    }
}

/// `==` on decoded values is part of the observable result: it depends on the bytes only, not on where they are (C01) — the same
/// bytes at another address give an equal value, and two values that render differently are not equal just because they start at the
/// same address
fn sw_equality(a: &mut Acc, b: &[u8]) {
    let copy: Vec<u8> = b.to_vec();
    let shorter = &b[..b.len().saturating_sub(1)];
    macro_rules! eqp {
        ($name:expr, $f:expr) => {{
            let x = $f(b);
            let y = $f(&copy[..]);
            if let (Ok(x), Ok(y)) = (&x, &y) {
                if x != y { a.flag(concat!("c01.eq_depends_on_location:", $name)); }
            }
            let z = $f(shorter);
            if let (Ok(x), Ok(z)) = (&x, &z) {
                if format!("{:?}", x) != format!("{:?}", z) && x == z { a.flag(concat!("c01.eq_ignores_contents:", $name)); }
            }
        }};
    }
    eqp!("Ethernet2Slice", Ethernet2Slice::from_slice_without_fcs);
    eqp!("Ethernet2HeaderSlice", Ethernet2HeaderSlice::from_slice);
    eqp!("LinuxSllSlice", LinuxSllSlice::from_slice);
    eqp!("LinuxSllHeaderSlice", LinuxSllHeaderSlice::from_slice);
    eqp!("SingleVlanSlice", SingleVlanSlice::from_slice);
    eqp!("SingleVlanHeaderSlice", SingleVlanHeaderSlice::from_slice);
    eqp!("MacsecSlice", MacsecSlice::from_slice);
    eqp!("MacsecHeaderSlice", MacsecHeaderSlice::from_slice);
    eqp!("ArpPacketSlice", ArpPacketSlice::from_slice);
    eqp!("Ipv4Slice", Ipv4Slice::from_slice);
    eqp!("Ipv4HeaderSlice", Ipv4HeaderSlice::from_slice);
    eqp!("Ipv6Slice", Ipv6Slice::from_slice);
    eqp!("Ipv6HeaderSlice", Ipv6HeaderSlice::from_slice);
    eqp!("IpSlice", IpSlice::from_slice);
    eqp!("LaxIpSlice", |s| LaxIpSlice::from_slice(s).map(|t| t.0));
    eqp!("IpAuthHeaderSlice", IpAuthHeaderSlice::from_slice);
    eqp!("Ipv6FragmentHeaderSlice", Ipv6FragmentHeaderSlice::from_slice);
    eqp!("Ipv6RawExtHeaderSlice", Ipv6RawExtHeaderSlice::from_slice);
    eqp!("UdpSlice", UdpSlice::from_slice);
    eqp!("UdpHeaderSlice", UdpHeaderSlice::from_slice);
    eqp!("TcpSlice", TcpSlice::from_slice);
    eqp!("TcpHeaderSlice", TcpHeaderSlice::from_slice);
    eqp!("Icmpv4Slice", Icmpv4Slice::from_slice);
    eqp!("Icmpv6Slice", Icmpv6Slice::from_slice);
    eqp!("SlicedPacket::from_ethernet", SlicedPacket::from_ethernet);
    eqp!("SlicedPacket::from_ip", SlicedPacket::from_ip);
    eqp!("LaxSlicedPacket::from_ethernet", LaxSlicedPacket::from_ethernet);
    eqp!("LaxSlicedPacket::from_ip", LaxSlicedPacket::from_ip);
}

/// deprecated aliases and helper predicates
#[allow(deprecated)]
fn sw_aliases(a: &mut Acc, b: &[u8]) {
    a.same("Ethernet2Header::read_from_slice", Ethernet2Header::read_from_slice(b).map(|(h, r)| (h, r.len())), Ethernet2Header::from_slice(b).map(|(h, r)| (h, r.len())));
    a.same("SingleVlanHeader::read_from_slice", SingleVlanHeader::read_from_slice(b).map(|(h, r)| (h, r.len())), SingleVlanHeader::from_slice(b).map(|(h, r)| (h, r.len())));
    a.same("Ipv4Header::read_from_slice", Ipv4Header::read_from_slice(b).map(|(h, r)| (h, r.len())), Ipv4Header::from_slice(b).map(|(h, r)| (h, r.len())));
    a.same("Ipv6Header::read_from_slice", Ipv6Header::read_from_slice(b).map(|(h, r)| (h, r.len())), Ipv6Header::from_slice(b).map(|(h, r)| (h, r.len())));
    a.same("TcpHeader::read_from_slice", TcpHeader::read_from_slice(b).map(|(h, r)| (h, r.len())), TcpHeader::from_slice(b).map(|(h, r)| (h, r.len())));
    a.same("UdpHeader::read_from_slice", UdpHeader::read_from_slice(b).map(|(h, r)| (h, r.len())), UdpHeader::from_slice(b).map(|(h, r)| (h, r.len())));
    a.same("IpHeaders::read_from_slice", format!("{:?}", IpHeaders::read_from_slice(b).map(|(h, n, r)| (h, n, r.len()))),
           format!("{:?}", IpHeaders::from_slice(b).map(|(h, p)| (h, p.ip_number, p.payload.len()))));
    if let Ok((h, _)) = IpHeaders::from_slice(b) {
        a.same("IpHeaders::ipv4/ipv6", (h.ipv4().is_some(), h.ipv6().is_some()), (matches!(h, IpHeaders::Ipv4(..)), matches!(h, IpHeaders::Ipv6(..))));
        let frag = match &h { IpHeaders::Ipv4(i, _) => i.is_fragmenting_payload(), IpHeaders::Ipv6(_, e) => e.is_fragmenting_payload() };
        a.same("IpHeaders::is_fragmenting_payload", h.is_fragmenting_payload(), frag);
        if let IpHeaders::Ipv6(i, e) = &h {
            a.d(i.source_addr()); a.d(i.destination_addr()); a.d(e.is_empty());
            if let Some(r) = &e.routing { a.d(r.header_len()); }
        }
        if let IpHeaders::Ipv4(_, e) = &h { a.d(e.is_empty()); }
    }
    if !b.is_empty() {
        let n = IpNumber(b[0]);
        // the extension headers of RFC 8200 / 4302 / 6275 / 7401 / 5533 and the two experimental numbers
        a.same("IpNumber::is_ipv6_ext_header_value", n.is_ipv6_ext_header_value(), [0u8, 43, 44, 50, 51, 60, 135, 139, 140, 253, 254].contains(&b[0]));
        a.same("Ipv6RawExtHeader::header_type_supported", Ipv6RawExtHeader::header_type_supported(n), [0u8, 43, 60, 135, 139, 140].contains(&b[0]));
        a.same("Ipv6RawExtHeaderSlice::header_type_supported", Ipv6RawExtHeaderSlice::header_type_supported(n), Ipv6RawExtHeader::header_type_supported(n));
        a.same("IpNumber::from", (IpNumber::from(b[0]), u8::from(n)), (n, b[0]));
        if b.len() >= 2 {
            let v = u16::from_be_bytes([b[0], b[1]]);
            a.same("EtherType::from", (EtherType::from(v), u16::from(EtherType(v))), (EtherType(v), v));
            a.same("ArpOperation::from", (ArpOperation::from(v), u16::from(ArpHardwareId::from(v))), (ArpOperation(v), v));
        }
        if b.len() >= 4 {
            let g = igmp::GroupAddress::new([b[0], b[1], b[2], b[3]]);
            a.same("GroupAddress", (g.is_zero(), <[u8; 4]>::from(g), std::net::Ipv4Addr::from(g), igmp::GroupAddress::from(std::net::Ipv4Addr::new(b[0], b[1], b[2], b[3]))),
                   (b[..4] == [0, 0, 0, 0], [b[0], b[1], b[2], b[3]], std::net::Ipv4Addr::new(b[0], b[1], b[2], b[3]), g));
        }
    }
    // helper getters that restate what another accessor of the same value says
    if let Ok((h, _)) = Ipv4Header::from_slice(b) {
        a.same("Ipv4Header::max_payload_len", h.max_payload_len() as usize, 65535 - h.header_len());
        a.same("Ipv4Options::len_u8", (h.options.len_u8() as usize, h.options.is_empty()), (h.options.len(), h.options.as_slice().is_empty()));
        a.same("Ipv4Options::len", h.options.len(), h.options.as_slice().len());
    }
    if let Ok((h, _)) = TcpHeader::from_slice(b) {
        a.same("TcpOptions::len_u8", (h.options.len_u8() as usize, h.options.is_empty()), (h.options.len(), h.options.as_slice().is_empty()));
        a.same("TcpOptions::len", h.options.len(), h.options.as_slice().len());
    }
    // hand-written Hash / Ord / AsRef / Borrow / Deref of the values with an internal buffer: equal values hash alike and compare Equal,
    // every byte view is the option area; a value that reached its state through a longer one (stale buffer bytes) is the same value
    fn hs<T: Hash>(t: &T) -> u64 {
        let mut h = std::collections::hash_map::DefaultHasher::new();
        t.hash(&mut h);
        h.finish()
    }
    use std::borrow::Borrow;
    use std::cmp::Ordering;
    if let Ok((h, _)) = Ipv4Header::from_slice(b) {
        let o = h.options.clone();
        if let Ok(o2) = Ipv4Options::try_from(o.as_slice()) {
            a.same("Ipv4Options::hash/ord", (o == o2, hs(&o) == hs(&o2), o.cmp(&o2), o.partial_cmp(&o2)), (true, true, Ordering::Equal, Some(Ordering::Equal)));
        }
        let other = Ipv4Options::try_from(&[1u8, 1, 1, 0][..]).unwrap();
        a.same("Ipv4Options::ord_vs_eq", o.cmp(&other) == Ordering::Equal, o == other);
        let (r, bb): (&[u8], &[u8]) = (o.as_ref(), o.borrow());
        a.same("Ipv4Options::as_ref/borrow/deref", (r, bb, &o[..]), (o.as_slice(), o.as_slice(), o.as_slice()));
    }
    if let Ok((h, _)) = TcpHeader::from_slice(b) {
        let o = h.options.clone();
        if let Ok(o2) = TcpOptions::try_from_slice(o.as_slice()) {
            a.same("TcpOptions::hash/ord", (o == o2, hs(&o) == hs(&o2), o.cmp(&o2), o.partial_cmp(&o2)), (true, true, Ordering::Equal, Some(Ordering::Equal)));
        }
        let other = TcpOptions::try_from_slice(&[1u8, 1, 1, 0][..]).unwrap();
        a.same("TcpOptions::ord_vs_eq", o.cmp(&other) == Ordering::Equal, o == other);
        let r: &[u8] = o.as_ref();
        a.same("TcpOptions::as_ref/deref", (r, &o[..]), (o.as_slice(), o.as_slice()));
    }
    if let Ok(sl) = ArpPacketSlice::from_slice(b) {
        let p = sl.to_packet();
        let big = [0xEEu8; 40];
        if let Ok(mut p2) = ArpPacket::new(p.hw_addr_type, p.proto_addr_type, p.operation, &big, &big, &big, &big) {
            if p2.set_hw_addrs(p.sender_hw_addr(), p.target_hw_addr()).is_ok() && p2.set_protocol_addrs(p.sender_protocol_addr(), p.target_protocol_addr()).is_ok() {
                a.same("ArpPacket::eq/hash after shrinking", (p2 == p, hs(&p2) == hs(&p), p2.to_bytes() == p.to_bytes()), (true, true, true));
            }
        }
    }
    // the two payload views of a link slice: same bytes; the SLL view of an Ethernet payload names its ether type, the ether view of an
    // SLL payload exists exactly when the protocol type is an ether type
    for sll in [false, true] {
        let r = if sll { SlicedPacket::from_linux_sll(b).ok() } else { SlicedPacket::from_ethernet(b).ok() };
        if let Some(l) = r.and_then(|p| p.link) {
            let sp = l.sll_payload();
            a.s(sp.payload);
            match l.ether_payload() {
                Some(ep) => {
                    let et = match sp.protocol_type {
                        LinuxSllProtocolType::EtherType(e) => Some(e.0),
                        LinuxSllProtocolType::LinuxNonstandardEtherType(e) => Some(u16::from(e)),
                        _ => None,
                    };
                    a.same("LinkSlice::sll_payload", (et, a.ctx.rg(sp.payload)), (Some(ep.ether_type.0), a.ctx.rg(ep.payload)));
                }
                None => a.same("LinkSlice::sll_payload", matches!(sp.protocol_type, LinuxSllProtocolType::EtherType(_) | LinuxSllProtocolType::LinuxNonstandardEtherType(_)), false),
            }
            if !sll {
                a.same("LinkSlice::sll_payload:eth", matches!(sp.protocol_type, LinuxSllProtocolType::EtherType(_)), true);
            }
        }
    }
    // LinuxSllProtocolType::change_value keeps the kind of the value and stores the number
    if b.len() >= 4 {
        let v = u16::from_be_bytes([b[2], b[3]]);
        let w = u16::from_be_bytes([b[0], b[1]]);
        for mut p in [LinuxSllProtocolType::Ignored(w), LinuxSllProtocolType::NetlinkProtocolType(w), LinuxSllProtocolType::GenericRoutingEncapsulationProtocolType(w),
                      LinuxSllProtocolType::EtherType(EtherType(w))] {
            let before = std::mem::discriminant(&p);
            let ether = matches!(p, LinuxSllProtocolType::EtherType(_));
            p.change_value(v);
            a.same("LinuxSllProtocolType::change_value", u16::from(p), v);
            if ether {
                a.same("LinuxSllProtocolType::change_value:kind", matches!(p, LinuxSllProtocolType::EtherType(_) | LinuxSllProtocolType::LinuxNonstandardEtherType(_)), true);
            } else {
                a.same("LinuxSllProtocolType::change_value:kind", std::mem::discriminant(&p), before);
            }
        }
    }
    // names of protocol numbers: total over the whole domain (rendering is part of totality)
    if !b.is_empty() {
        a.d(IpNumber(b[0]).keyword_str()); a.d(IpNumber(b[0]).protocol_str());
        a.d(icmpv6::NdpOptionType(b[0]).keyword_str());
        a.same("LenError::add_offset", {
            let e = err::LenError { required_len: 9, len: 4, len_source: LenSource::Ipv6HeaderPayloadLen, layer: err::Layer::UdpHeader, layer_start_offset: b[0] as usize };
            e.add_offset(b.len())
        }, err::LenError { required_len: 9, len: 4, len_source: LenSource::Ipv6HeaderPayloadLen, layer: err::Layer::UdpHeader, layer_start_offset: b[0] as usize + b.len() });
    }
    // a length limited reader reports what it was created with
    let r = io::LimitedReader::new(std::io::Cursor::new(b), b.len() / 2, LenSource::Ipv4HeaderTotalLen, 7, err::Layer::Ipv4Packet);
    a.same("LimitedReader getters", (r.max_len(), r.len_source(), r.layer(), r.layer_offset(), r.read_len()), (b.len() / 2, LenSource::Ipv4HeaderTotalLen, err::Layer::Ipv4Packet, 7, 0));
}

pub fn sweep(ctx: &Ctx, which: &str, b: &[u8]) -> (i64, u64, Vec<String>) {
    let mut a = Acc::new(ctx);
    match which {
        "link" => sw_link(&mut a, b),
        "net" => sw_net(&mut a, b),
        "packet" => { sw_packet(&mut a, b); sw_aliases(&mut a, b); sw_layer_doors(&mut a, b); sw_equality(&mut a, b); }
        _ => sw_transport(&mut a, b),
    }
    a.finish()
}
