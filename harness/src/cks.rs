//! Driver for the checksum machines (spec/Checksum.tla): the accumulator per step in all three widths and every
//! protocol checksum function of the crate.
use etherparse::checksum::{u32_16bit_word, u64_16bit_word, Sum16BitWords};
use etherparse::*;
use serde_json::{json, Value};
use std::panic::{catch_unwind, AssertUnwindSafe};

fn bytes_of(v: &Value) -> Vec<u8> {
    v.as_array().map(|a| a.iter().map(|x| x.as_u64().unwrap() as u8).collect()).unwrap_or_default()
}
fn arr<const N: usize>(b: &[u8]) -> [u8; N] {
    let mut a = [0u8; N];
    a.copy_from_slice(&b[..N]);
    a
}

fn steps(id: &str, c: &Value) -> Value {
    let ops = c["ops"].as_array().unwrap();
    let mut native = Sum16BitWords::new();
    let mut s32: u32 = 0;
    let mut s64: u64 = 0;
    let mut alt_n = [Sum16BitWords::new(), Sum16BitWords::new()];
    let mut alt_32 = [0u32; 2];
    let mut alt_64 = [0u64; 2];
    let mut out = vec![];
    for op in ops {
        let name = op[0].as_str().unwrap();
        let b = bytes_of(&op[1]);
        match name {
            "b2" => {
                native = native.add_2bytes(arr::<2>(&b));
                s32 = u32_16bit_word::add_2bytes(s32, arr::<2>(&b));
                s64 = u64_16bit_word::add_2bytes(s64, arr::<2>(&b));
            }
            "b4" => {
                native = native.add_4bytes(arr::<4>(&b));
                s32 = u32_16bit_word::add_4bytes(s32, arr::<4>(&b));
                s64 = u64_16bit_word::add_4bytes(s64, arr::<4>(&b));
            }
            "b8" => {
                native = native.add_8bytes(arr::<8>(&b));
                s32 = u32_16bit_word::add_4bytes(u32_16bit_word::add_4bytes(s32, arr::<4>(&b)), arr::<4>(&b[4..]));
                s64 = u64_16bit_word::add_8bytes(s64, arr::<8>(&b));
            }
            "b16" => {
                native = native.add_16bytes(arr::<16>(&b));
                for k in 0..4 {
                    s32 = u32_16bit_word::add_4bytes(s32, arr::<4>(&b[4 * k..]));
                }
                s64 = u64_16bit_word::add_8bytes(u64_16bit_word::add_8bytes(s64, arr::<8>(&b)), arr::<8>(&b[8..]));
            }
            _ => {
                native = native.add_slice(&b);
                s32 = u32_16bit_word::add_slice(s32, &b);
                s64 = u64_16bit_word::add_slice(s64, &b);
            }
        }
        // the same additions with every slice placed at an ODD address and at an address that is 4 mod 8 (a sum must not depend on
        // where its bytes are located): separate accumulators, fed only through add_slice
        for (k, off) in [(0usize, 1usize), (1, 4)] {
            let mut buf = vec![0xEEu8; b.len() + 16];
            let base = buf.as_ptr() as usize;
            let start = (8 - base % 8) % 8 + off;
            buf[start..start + b.len()].copy_from_slice(&b);
            alt_n[k] = alt_n[k].clone().add_slice(&buf[start..start + b.len()]);
            alt_32[k] = u32_16bit_word::add_slice(alt_32[k], &buf[start..start + b.len()]);
            alt_64[k] = u64_16bit_word::add_slice(alt_64[k], &buf[start..start + b.len()]);
        }
        let moved = (0..2).all(|k| alt_n[k].ones_complement() == native.ones_complement() && u32_16bit_word::ones_complement(alt_32[k]) == u32_16bit_word::ones_complement(s32)
                               && u64_16bit_word::ones_complement(alt_64[k]) == u64_16bit_word::ones_complement(s64));
        // what the callers transmit: ones_complement().to_be()
        out.push(json!({"op": name, "bytes": b,
            "native": native.ones_complement().to_be(), "native_nz": native.to_ones_complement_with_no_zero().to_be(),
            "u32": u32_16bit_word::ones_complement(s32).to_be(), "u32_nz": u32_16bit_word::ones_complement_with_no_zero(s32).to_be(),
            "u64": u64_16bit_word::ones_complement(s64).to_be(), "u64_nz": u64_16bit_word::ones_complement_with_no_zero(s64).to_be(),
            "moved": if moved { 1 } else { 0 }}));
    }
    json!({"ev": "cks_steps", "id": id, "steps": out})
}

fn res(v: Result<u16, err::ValueTooBigError<usize>>) -> i64 {
    match v {
        Ok(x) => x as i64,
        Err(_) => -1,
    }
}

/// accumulator pre-loaded so that the wide register is about to overflow: end-around carries of the
/// 32 / 64 bit register itself ("carries out of 32/64 bits")
fn saturate(id: &str, c: &Value) -> Value {
    let tail = bytes_of(&c["bytes"]);
    let n = c["n"].as_u64().unwrap() as usize;
    // n * 8 bytes of 0xff, added through every entry point; the folded value is checked after every step
    let mut native = Sum16BitWords::new();
    let mut s32: u32 = 0;
    let mut s64: u64 = 0;
    let ff = vec![0xffu8; 8 * n];
    native = native.add_slice(&ff);
    s32 = u32_16bit_word::add_slice(s32, &ff);
    s64 = u64_16bit_word::add_slice(s64, &ff);
    // force the registers to their maximum: adding 0xffff.. words keeps the one's complement sum at 0xffff
    let mut s32b = u32::MAX - 1;
    let mut s64b = u64::MAX - 1;
    s32b = u32_16bit_word::add_slice(s32b, &tail);
    s64b = u64_16bit_word::add_slice(s64b, &tail);
    native = native.add_slice(&tail);
    s32 = u32_16bit_word::add_slice(s32, &tail);
    s64 = u64_16bit_word::add_slice(s64, &tail);
    json!({"ev": "cks_sat", "id": id, "n": n, "bytes": tail,
           "native": native.ones_complement().to_be(), "u32": u32_16bit_word::ones_complement(s32).to_be(), "u64": u64_16bit_word::ones_complement(s64).to_be(),
           "u32_full": u32_16bit_word::ones_complement(s32b).to_be(), "u64_full": u64_16bit_word::ones_complement(s64b).to_be()})
}

/// values for the length field of an IP header that is handed to a checksum function next to a transport message of n bytes: the real
/// length, more (extension headers in between), less / stale
fn ip6_len_variants(n: usize) -> Vec<(&'static str, u16)> {
    vec![("ip.len=msg", n.min(65535) as u16), ("ip.len=msg+8", (n + 8).min(65535) as u16), ("ip.len=msg+24", (n + 24).min(65535) as u16), ("ip.len=1", 1), ("ip.len=max", 65535)]
}
fn ip4_len_variants(n: usize) -> Vec<(&'static str, u16)> {
    vec![("ip.len=msg", n.min(65515) as u16), ("ip.len=msg+12", (n + 12).min(65515) as u16), ("ip.len=3", 3), ("ip.len=max", 65515)]
}

fn proto(id: &str, c: &Value) -> Value {
    let what = c["kind"].as_str().unwrap();
    let src = bytes_of(&c["src"]);
    let dst = bytes_of(&c["dst"]);
    let payload = bytes_of(&c["payload"]);
    let raw = bytes_of(&c["hdr"]);
    let mut results: Vec<Value> = vec![];
    let mut push = |api: &str, got: i64| results.push(json!({"api": api, "got": got}));
    let hdr: Vec<u8>;
    let cksoff: usize;
    let mut valid: i64 = -1;
    match what {
        "udp4" | "udp6" => {
            let sp = u16::from_be_bytes([raw[0], raw[1]]);
            let dp = u16::from_be_bytes([raw[2], raw[3]]);
            // length field: the real length; jumbograms (RFC 2675) carry 0 and are announced by the case
            let ulen = c.get("udplen").and_then(|x| x.as_u64()).map(|x| x as u16).unwrap_or((8 + payload.len()) as u16);
            let h = UdpHeader { source_port: sp, destination_port: dp, length: ulen, checksum: u16::from_be_bytes([raw[6], raw[7]]) };
            hdr = h.to_bytes().to_vec();
            cksoff = 6;
            if what == "udp4" {
                let ip = Ipv4Header::new(0, 9, ip_number::UDP, arr::<4>(&src), arr::<4>(&dst)).unwrap();
                push("UdpHeader::calc_checksum_ipv4", res(h.calc_checksum_ipv4(&ip, &payload)));
                push("UdpHeader::calc_checksum_ipv4_raw", res(h.calc_checksum_ipv4_raw(arr::<4>(&src), arr::<4>(&dst), &payload)));
                push("UdpHeader::with_ipv4_checksum", UdpHeader::with_ipv4_checksum(sp, dp, &ip, &payload).map(|x| x.checksum as i64).unwrap_or(-1));
                let mut t = TransportHeader::Udp(h.clone());
                push("TransportHeader::update_checksum_ipv4", t.update_checksum_ipv4(&ip, &payload).map(|_| t.udp().unwrap().checksum as i64).unwrap_or(-1));
                // the IP header only supplies the addresses: whatever its own length field says (the real length, more because of an
                // authentication header, something stale) the pseudo header carries the length of the UDP message
                if payload.len() < 60000 {
                    for (tag, pl) in ip4_len_variants(8 + payload.len()) {
                        let ip = Ipv4Header::new(pl, 9, ip_number::UDP, arr::<4>(&src), arr::<4>(&dst)).unwrap();
                        push(&format!("UdpHeader::calc_checksum_ipv4[{}]", tag), res(h.calc_checksum_ipv4(&ip, &payload)));
                        let mut t = TransportHeader::Udp(h.clone());
                        push(&format!("TransportHeader::update_checksum_ipv4[{}]", tag), t.update_checksum_ipv4(&ip, &payload).map(|_| t.udp().unwrap().checksum as i64).unwrap_or(-1));
                    }
                }
                match UdpHeader::without_ipv4_checksum(sp, dp, payload.len()) {
                    Ok(w) => push("UdpHeader::without_ipv4_checksum.is_zero", if w.checksum == 0 && w.length as usize == 8 + payload.len() { -2 } else { -3 }),
                    Err(_) => push("UdpHeader::without_ipv4_checksum.is_zero", if payload.len() > 65527 { -2 } else { -3 }),
                }
            } else {
                let ip = Ipv6Header { traffic_class: 0, flow_label: Ipv6FlowLabel::ZERO, payload_length: 0, next_header: ip_number::UDP, hop_limit: 3, source: arr::<16>(&src), destination: arr::<16>(&dst) };
                push("UdpHeader::calc_checksum_ipv6", res(h.calc_checksum_ipv6(&ip, &payload)));
                push("UdpHeader::calc_checksum_ipv6_raw", res(h.calc_checksum_ipv6_raw(arr::<16>(&src), arr::<16>(&dst), &payload)));
                push("UdpHeader::with_ipv6_checksum", UdpHeader::with_ipv6_checksum(sp, dp, &ip, &payload).map(|x| x.checksum as i64).unwrap_or(-1));
                let mut t = TransportHeader::Udp(h.clone());
                push("TransportHeader::update_checksum_ipv6", t.update_checksum_ipv6(&ip, &payload).map(|_| t.udp().unwrap().checksum as i64).unwrap_or(-1));
                if payload.len() < 60000 {
                    for (tag, pl) in ip6_len_variants(8 + payload.len()) {
                        let ip = Ipv6Header { payload_length: pl, ..ip.clone() };
                        push(&format!("UdpHeader::calc_checksum_ipv6[{}]", tag), res(h.calc_checksum_ipv6(&ip, &payload)));
                        let mut t = TransportHeader::Udp(h.clone());
                        push(&format!("TransportHeader::update_checksum_ipv6[{}]", tag), t.update_checksum_ipv6(&ip, &payload).map(|_| t.udp().unwrap().checksum as i64).unwrap_or(-1));
                    }
                }
            }
        }
        "tcp4" | "tcp6" => {
            // raw: a TCP header (20..60 bytes) with consistent data offset
            let (h, _) = TcpHeader::from_slice(&raw).expect("tcp header bytes");
            hdr = h.to_bytes().to_vec();
            cksoff = 16;
            let mut whole = hdr.clone();
            whole.extend(&payload);
            let hs = TcpHeaderSlice::from_slice(&whole).unwrap();
            let ts = TcpSlice::from_slice(&whole).unwrap();
            if what == "tcp4" {
                let ip = Ipv4Header::new(0, 9, ip_number::TCP, arr::<4>(&src), arr::<4>(&dst)).unwrap();
                push("TcpHeader::calc_checksum_ipv4", res(h.calc_checksum_ipv4(&ip, &payload)));
                push("TcpHeader::calc_checksum_ipv4_raw", res(h.calc_checksum_ipv4_raw(arr::<4>(&src), arr::<4>(&dst), &payload)));
                push("TcpHeaderSlice::calc_checksum_ipv4", res(hs.calc_checksum_ipv4(&Ipv4HeaderSlice::from_slice(&ip.to_bytes()).unwrap(), &payload)));
                push("TcpHeaderSlice::calc_checksum_ipv4_raw", res(hs.calc_checksum_ipv4_raw(arr::<4>(&src), arr::<4>(&dst), &payload)));
                push("TcpSlice::calc_checksum_ipv4", res(ts.calc_checksum_ipv4(arr::<4>(&src), arr::<4>(&dst))));
                let mut t = TransportHeader::Tcp(h.clone());
                push("TransportHeader::update_checksum_ipv4", t.update_checksum_ipv4(&ip, &payload).map(|_| t.tcp().unwrap().checksum as i64).unwrap_or(-1));
                if payload.len() < 60000 {
                    for (tag, pl) in ip4_len_variants(hdr.len() + payload.len()) {
                        let ip = Ipv4Header::new(pl, 9, ip_number::TCP, arr::<4>(&src), arr::<4>(&dst)).unwrap();
                        push(&format!("TcpHeader::calc_checksum_ipv4[{}]", tag), res(h.calc_checksum_ipv4(&ip, &payload)));
                        push(&format!("TcpHeaderSlice::calc_checksum_ipv4[{}]", tag), res(hs.calc_checksum_ipv4(&Ipv4HeaderSlice::from_slice(&ip.to_bytes()).unwrap(), &payload)));
                        let mut t = TransportHeader::Tcp(h.clone());
                        push(&format!("TransportHeader::update_checksum_ipv4[{}]", tag), t.update_checksum_ipv4(&ip, &payload).map(|_| t.tcp().unwrap().checksum as i64).unwrap_or(-1));
                    }
                }
            } else {
                let ip = Ipv6Header { traffic_class: 0, flow_label: Ipv6FlowLabel::ZERO, payload_length: 0, next_header: ip_number::TCP, hop_limit: 3, source: arr::<16>(&src), destination: arr::<16>(&dst) };
                push("TcpHeader::calc_checksum_ipv6", res(h.calc_checksum_ipv6(&ip, &payload)));
                push("TcpHeader::calc_checksum_ipv6_raw", res(h.calc_checksum_ipv6_raw(arr::<16>(&src), arr::<16>(&dst), &payload)));
                push("TcpHeaderSlice::calc_checksum_ipv6", res(hs.calc_checksum_ipv6(&Ipv6HeaderSlice::from_slice(&ip.to_bytes()).unwrap(), &payload)));
                push("TcpHeaderSlice::calc_checksum_ipv6_raw", res(hs.calc_checksum_ipv6_raw(arr::<16>(&src), arr::<16>(&dst), &payload)));
                push("TcpSlice::calc_checksum_ipv6", res(ts.calc_checksum_ipv6(arr::<16>(&src), arr::<16>(&dst))));
                let mut t = TransportHeader::Tcp(h.clone());
                push("TransportHeader::update_checksum_ipv6", t.update_checksum_ipv6(&ip, &payload).map(|_| t.tcp().unwrap().checksum as i64).unwrap_or(-1));
                if payload.len() < 60000 {
                    for (tag, pl) in ip6_len_variants(hdr.len() + payload.len()) {
                        let ip = Ipv6Header { payload_length: pl, ..ip.clone() };
                        push(&format!("TcpHeader::calc_checksum_ipv6[{}]", tag), res(h.calc_checksum_ipv6(&ip, &payload)));
                        push(&format!("TcpHeaderSlice::calc_checksum_ipv6[{}]", tag), res(hs.calc_checksum_ipv6(&Ipv6HeaderSlice::from_slice(&ip.to_bytes()).unwrap(), &payload)));
                        let mut t = TransportHeader::Tcp(h.clone());
                        push(&format!("TransportHeader::update_checksum_ipv6[{}]", tag), t.update_checksum_ipv6(&ip, &payload).map(|_| t.tcp().unwrap().checksum as i64).unwrap_or(-1));
                    }
                }
            }
        }
        "icmp4" => {
            // raw ++ payload is an ICMPv4 message; the typed header is what the crate would send
            let mut whole = raw.clone();
            whole.extend(&payload);
            match Icmpv4Slice::from_slice(&whole) {
                Err(_) => {
                    // a timestamp message followed by more bytes is not a sliceable message, but the header level API takes a payload: the
                    // checksum it fills in covers the header and whatever is sent behind it (RFC 792: "the ICMP message")
                    if whole.len() > 20 && (whole[0] == 13 || whole[0] == 14) && whole[1] == 0 {
                        if let Ok((h, _)) = Icmpv4Header::from_slice(&whole[..20]) {
                            let pl = whole[20..].to_vec();
                            hdr = h.to_bytes().to_vec();
                            push("Icmpv4Type::calc_checksum[timestamp+data]", h.icmp_type.calc_checksum(&pl) as i64);
                            push("Icmpv4Header::with_checksum[timestamp+data]", Icmpv4Header::with_checksum(h.icmp_type.clone(), &pl).checksum as i64);
                            let mut h2 = h.clone();
                            h2.update_checksum(&pl);
                            push("Icmpv4Header::update_checksum[timestamp+data]", h2.checksum as i64);
                            let ip = Ipv4Header::new(0, 9, ip_number::ICMP, [1, 2, 3, 4], [5, 6, 7, 8]).unwrap();
                            let mut t = TransportHeader::Icmpv4(h.clone());
                            push("TransportHeader::update_checksum_ipv4[timestamp+data]", t.update_checksum_ipv4(&ip, &pl).map(|_| t.icmpv4().unwrap().checksum as i64).unwrap_or(-1));
                            let ip6 = Ipv6Header { traffic_class: 0, flow_label: Ipv6FlowLabel::ZERO, payload_length: 0, next_header: ip_number::ICMP, hop_limit: 3, source: [1; 16], destination: [2; 16] };
                            let mut t = TransportHeader::Icmpv4(h.clone());
                            push("TransportHeader::update_checksum_ipv6[timestamp+data]", t.update_checksum_ipv6(&ip6, &pl).map(|_| t.icmpv4().unwrap().checksum as i64).unwrap_or(-1));
                            return json!({"ev": "cks", "id": id, "what": what, "src": [], "dst": [], "hdr": hdr, "cksoff": 2, "payload": pl, "results": results, "valid": -1});
                        }
                    }
                    return json!({"ev": "cks_skip", "id": id});
                }
                Ok(s) => {
                    let h = s.header();
                    hdr = h.to_bytes().to_vec();
                    cksoff = 2;
                    let pl = s.payload().to_vec();
                    push("Icmpv4Type::calc_checksum", h.icmp_type.calc_checksum(&pl) as i64);
                    push("Icmpv4Header::with_checksum", Icmpv4Header::with_checksum(h.icmp_type.clone(), &pl).checksum as i64);
                    let mut h2 = h.clone();
                    h2.update_checksum(&pl);
                    push("Icmpv4Header::update_checksum", h2.checksum as i64);
                    let mut t = TransportHeader::Icmpv4(h.clone());
                    let ip = Ipv4Header::new(0, 9, ip_number::ICMP, [1, 2, 3, 4], [5, 6, 7, 8]).unwrap();
                    push("TransportHeader::update_checksum_ipv4", t.update_checksum_ipv4(&ip, &pl).map(|_| t.icmpv4().unwrap().checksum as i64).unwrap_or(-1));
                    for (tag, l) in ip4_len_variants(hdr.len() + pl.len()) {
                        let ip = Ipv4Header::new(l, 9, ip_number::ICMP, [1, 2, 3, 4], [5, 6, 7, 8]).unwrap();
                        let mut t = TransportHeader::Icmpv4(h.clone());
                        push(&format!("TransportHeader::update_checksum_ipv4[{}]", tag), t.update_checksum_ipv4(&ip, &pl).map(|_| t.icmpv4().unwrap().checksum as i64).unwrap_or(-1));
                    }
                    return json!({"ev": "cks", "id": id, "what": what, "src": [], "dst": [], "hdr": hdr, "cksoff": cksoff, "payload": pl, "results": results, "valid": -1});
                }
            }
        }
        "icmp6" => {
            let mut whole = raw.clone();
            whole.extend(&payload);
            match Icmpv6Slice::from_slice(&whole) {
                Err(_) => return json!({"ev": "cks_skip", "id": id}),
                Ok(s) => {
                    let h = s.header();
                    hdr = h.to_bytes().to_vec();
                    cksoff = 2;
                    let pl = s.payload().to_vec();
                    let (s16, d16) = (arr::<16>(&src), arr::<16>(&dst));
                    push("Icmpv6Type::calc_checksum", res(h.icmp_type.calc_checksum(s16, d16, &pl)));
                    push("Icmpv6Header::with_checksum", Icmpv6Header::with_checksum(h.icmp_type.clone(), s16, d16, &pl).map(|x| x.checksum as i64).unwrap_or(-1));
                    let mut h2 = h.clone();
                    push("Icmpv6Header::update_checksum", h2.update_checksum(s16, d16, &pl).map(|_| h2.checksum as i64).unwrap_or(-1));
                    let ip = Ipv6Header { traffic_class: 0, flow_label: Ipv6FlowLabel::ZERO, payload_length: 0, next_header: ip_number::IPV6_ICMP, hop_limit: 3, source: s16, destination: d16 };
                    let mut t = TransportHeader::Icmpv6(h.clone());
                    push("TransportHeader::update_checksum_ipv6", t.update_checksum_ipv6(&ip, &pl).map(|_| t.icmpv6().unwrap().checksum as i64).unwrap_or(-1));
                    if pl.len() < 60000 {
                        for (tag, l) in ip6_len_variants(hdr.len() + pl.len()) {
                            let ip = Ipv6Header { payload_length: l, ..ip.clone() };
                            let mut t = TransportHeader::Icmpv6(h.clone());
                            push(&format!("TransportHeader::update_checksum_ipv6[{}]", tag), t.update_checksum_ipv6(&ip, &pl).map(|_| t.icmpv6().unwrap().checksum as i64).unwrap_or(-1));
                        }
                    }
                    // validation of the received bytes as they are (checksum field included)
                    valid = if s.is_checksum_valid(s16, d16) { 1 } else { 0 };
                    return json!({"ev": "cks", "id": id, "what": what, "src": src, "dst": dst, "hdr": hdr, "cksoff": cksoff, "payload": pl, "results": results,
                                  "valid": valid, "rx": whole});
                }
            }
        }
        "igmp" => {
            let mut whole = raw.clone();
            whole.extend(&payload);
            match IgmpHeader::from_slice(&whole) {
                Err(_) => return json!({"ev": "cks_skip", "id": id}),
                Ok((h, rest)) => {
                    hdr = h.to_bytes().to_vec();
                    cksoff = 2;
                    let pl = rest.to_vec();
                    push("IgmpHeader::calc_checksum", h.calc_checksum(&pl) as i64);
                    push("IgmpHeader::with_checksum", IgmpHeader::with_checksum(h.igmp_type.clone(), &pl).checksum as i64);
                    return json!({"ev": "cks", "id": id, "what": what, "src": [], "dst": [], "hdr": hdr, "cksoff": cksoff, "payload": pl, "results": results, "valid": -1});
                }
            }
        }
        "ipv4hdr" => {
            match Ipv4Header::from_slice(&raw) {
                Err(_) => return json!({"ev": "cks_skip", "id": id}),
                Ok((h, _)) => {
                    hdr = h.to_bytes().to_vec();
                    cksoff = 10;
                    push("Ipv4Header::calc_header_checksum", h.calc_header_checksum() as i64);
                    let mut w: Vec<u8> = vec![];
                    h.write(&mut w).unwrap();
                    push("Ipv4Header::write(checksum field)", u16::from_be_bytes([w[10], w[11]]) as i64);
                    return json!({"ev": "cks", "id": id, "what": what, "src": [], "dst": [], "hdr": hdr, "cksoff": cksoff, "payload": [], "results": results, "valid": -1});
                }
            }
        }
        other => panic!("unknown checksum case {}", other),
    }
    json!({"ev": "cks", "id": id, "what": what, "src": src, "dst": dst, "hdr": hdr, "cksoff": cksoff, "payload": payload, "results": results, "valid": valid})
}

pub fn run_case(id: &str, c: &Value) -> Value {
    let kind = c["kind"].as_str().unwrap().to_string();
    let r = catch_unwind(AssertUnwindSafe(|| match kind.as_str() {
        "steps" => steps(id, c),
        "sat" => saturate(id, c),
        _ => proto(id, c),
    }));
    r.unwrap_or_else(|_| json!({"ev": "panic", "id": id}))
}
