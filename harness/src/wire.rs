//! Driver for the header codecs (spec/Wire.tla, C08/C15; the read side also serves C06):
//! a value is built from its field sequence through the public constructors, serialised by every serialiser the
//! type offers, decoded again from slice and from io::Read.
use crate::proj::*;
use etherparse::*;
use serde_json::{json, Value};
use std::io::Cursor;
use std::panic::{catch_unwind, AssertUnwindSafe};

fn ints(v: &Value) -> Vec<i64> {
    v.as_array().map(|a| a.iter().map(|x| x.as_i64().unwrap()).collect()).unwrap_or_default()
}
fn u8s(f: &[i64]) -> Vec<u8> {
    f.iter().map(|x| *x as u8).collect()
}
fn arr<const N: usize>(f: &[i64]) -> [u8; N] {
    let mut a = [0u8; N];
    for i in 0..N {
        a[i] = f[i] as u8;
    }
    a
}
fn be32(f: &[i64]) -> u32 {
    u32::from_be_bytes(arr::<4>(f))
}

/// everything the harness observed for one value
#[derive(Default)]
struct Obs {
    to_bytes: Vec<u8>,
    write: Vec<u8>,
    slice: Option<Vec<u8>>,
    hlen: usize,
    dec_f: Vec<i64>,
    rest: i64,
    eq: i64,
    read_eq: i64,
    read_used: i64,
    from_bytes_eq: i64,
    /// the same abstract value built by a different construction history (longer buffer first, then the setter):
    /// 1 = equal to the directly constructed value, same bytes, survives the round trip; 0 = not; -1 = no such API
    alt: i64,
    /// Ipv4Header::write(): the serialiser that recomputes the header checksum
    write2: Vec<u8>,
}
impl Obs {
    fn json(&self, id: &str, ty: &str, f: &[i64]) -> Value {
        json!({"ev": "wire", "id": id, "type": ty, "f": f, "to_bytes": self.to_bytes, "write": self.write,
               "slice": self.slice.clone().unwrap_or_default(), "has_slice": if self.slice.is_some() { 1 } else { 0 },
               "hlen": self.hlen, "dec_f": self.dec_f, "rest": self.rest, "eq": self.eq, "read_eq": self.read_eq, "read_used": self.read_used,
               "from_bytes_eq": self.from_bytes_eq, "alt": self.alt, "write2": self.write2})
    }
}
const TAIL: [u8; 3] = [0xEE, 0xEE, 0xEE];
fn with_tail(b: &[u8]) -> Vec<u8> {
    let mut v = b.to_vec();
    v.extend(TAIL);
    v
}

macro_rules! common {
    ($o:ident, $h:ident, $to_bytes:expr, $hlen:expr) => {
        $o.to_bytes = $to_bytes;
        let mut w: Vec<u8> = vec![];
        $h.write(&mut w).unwrap();
        $o.write = w;
        $o.hlen = $hlen;
    };
}

pub fn value_case(id: &str, ty: &str, f: &[i64]) -> Value {
    let mut o = Obs { from_bytes_eq: -1, read_eq: -1, read_used: -1, alt: -1, ..Default::default() };
    match ty {
        "eth" => {
            let h = Ethernet2Header { destination: arr::<6>(&f[0..]), source: arr::<6>(&f[6..]), ether_type: EtherType(f[12] as u16) };
            common!(o, h, h.to_bytes().to_vec(), h.header_len());
            let mut buf = [0xAAu8; 20];
            let left = h.write_to_slice(&mut buf).map(|r| r.len()).unwrap_or(999);
            o.slice = Some(buf[..20 - left.min(20)].to_vec());
            let wt = with_tail(&o.to_bytes);
            let (d, rest) = Ethernet2Header::from_slice(&wt).unwrap();
            o.dec_f = f_eth_h(&d); o.rest = rest.len() as i64 - 3; o.eq = b2i(d == h);
            o.from_bytes_eq = b2i(Ethernet2Header::from_bytes(h.to_bytes()) == h);
            let mut c = Cursor::new(&wt[..]);
            o.read_eq = b2i(Ethernet2Header::read(&mut c).map(|x| x == h).unwrap_or(false)); o.read_used = c.position() as i64;
        }
        "sll" => {
            let hw = ArpHardwareId(f[1] as u16);
            let h = LinuxSllHeader { packet_type: LinuxSllPacketType::try_from(f[0] as u16).unwrap(), arp_hrd_type: hw, sender_address_valid_length: f[2] as u16,
                                     sender_address: arr::<8>(&f[3..]), protocol_type: LinuxSllProtocolType::try_from((hw, f[11] as u16)).unwrap() };
            common!(o, h, h.to_bytes().to_vec(), h.header_len());
            let mut buf = [0xAAu8; 20];
            let left = h.write_to_slice(&mut buf).map(|r| r.len()).unwrap_or(999);
            o.slice = Some(buf[..20 - left.min(20)].to_vec());
            let wt = with_tail(&o.to_bytes);
            let (d, rest) = LinuxSllHeader::from_slice(&wt).unwrap();
            o.dec_f = f_sll_h(&d); o.rest = rest.len() as i64 - 3; o.eq = b2i(d == h);
            o.from_bytes_eq = b2i(LinuxSllHeader::from_bytes(h.to_bytes()).map(|x| x == h).unwrap_or(false));
            let mut c = Cursor::new(&wt[..]);
            o.read_eq = b2i(LinuxSllHeader::read(&mut c).map(|x| x == h).unwrap_or(false)); o.read_used = c.position() as i64;
        }
        "vlan" => {
            let h = SingleVlanHeader { pcp: VlanPcp::try_new(f[0] as u8).unwrap(), drop_eligible_indicator: f[1] == 1, vlan_id: VlanId::try_new(f[2] as u16).unwrap(), ether_type: EtherType(f[3] as u16) };
            common!(o, h, h.to_bytes().to_vec(), h.header_len());
            let wt = with_tail(&o.to_bytes);
            let (d, rest) = SingleVlanHeader::from_slice(&wt).unwrap();
            o.dec_f = f_vlan_h(&d); o.rest = rest.len() as i64 - 3; o.eq = b2i(d == h);
            o.from_bytes_eq = b2i(SingleVlanHeader::from_bytes(h.to_bytes()) == h);
            let mut c = Cursor::new(&wt[..]);
            o.read_eq = b2i(SingleVlanHeader::read(&mut c).map(|x| x == h).unwrap_or(false)); o.read_used = c.position() as i64;
        }
        "macsec" => {
            let ptype = match f[0] { 0 => MacsecPType::Unmodified(EtherType(f[1] as u16)), 1 => MacsecPType::Modified, 2 => MacsecPType::Encrypted, _ => MacsecPType::EncryptedUnmodified };
            let h = MacsecHeader { ptype, endstation_id: f[2] == 1, scb: f[3] == 1, an: MacsecAn::try_from(f[4] as u8).unwrap(), short_len: MacsecShortLen::try_from(f[5] as u8).unwrap(),
                                   packet_nr: be32(&f[6..]), sci: if f[10] == 1 { Some(u64::from_be_bytes(arr::<8>(&f[11..]))) } else { None } };
            common!(o, h, h.to_bytes().to_vec(), h.header_len());
            let wt = with_tail(&o.to_bytes);
            let d = MacsecHeader::from_slice(&wt).unwrap();
            o.dec_f = f_macsec_h(&d); o.rest = 0; o.eq = b2i(d == h);
            let mut c = Cursor::new(&wt[..]);
            o.read_eq = b2i(MacsecHeader::read(&mut c).map(|x| x == h).unwrap_or(false)); o.read_used = c.position() as i64;
        }
        "arp" => {
            let (hl, pl) = (f[2] as usize, f[3] as usize);
            let a = u8s(&f[5..]);
            let h = ArpPacket::new(ArpHardwareId(f[0] as u16), EtherType(f[1] as u16), ArpOperation(f[4] as u16), &a[..hl], &a[hl..hl + pl], &a[hl + pl..2 * hl + pl], &a[2 * hl + pl..]).unwrap();
            common!(o, h, h.to_bytes().to_vec(), h.packet_len());
            let wt = with_tail(&o.to_bytes);
            let d = ArpPacket::from_slice(&wt).unwrap();
            o.dec_f = f_arp_h(&d); o.rest = 0; o.eq = b2i(d == h);
            let mut c = Cursor::new(&wt[..]);
            o.read_eq = b2i(ArpPacket::read(&mut c).map(|x| x == h).unwrap_or(false)); o.read_used = c.position() as i64;
        }
        "ipv4" => {
            let mut h = Ipv4Header::new(0, f[7] as u8, IpNumber(f[8] as u8), arr::<4>(&f[10..]), arr::<4>(&f[14..])).unwrap();
            h.dscp = IpDscp::try_new(f[0] as u8).unwrap(); h.ecn = IpEcn::try_new(f[1] as u8).unwrap(); h.total_len = f[2] as u16; h.identification = f[3] as u16;
            h.dont_fragment = f[4] == 1; h.more_fragments = f[5] == 1; h.fragment_offset = IpFragOffset::try_new(f[6] as u16).unwrap(); h.header_checksum = f[9] as u16;
            h.options = u8s(&f[18..]).as_slice().try_into().unwrap();
            o.to_bytes = h.to_bytes().to_vec();
            // write() recomputes the header checksum, write_raw() keeps the stored one (like to_bytes)
            let mut w: Vec<u8> = vec![];
            h.write_raw(&mut w).unwrap();
            o.write = w;
            o.hlen = h.header_len();
            let wt = with_tail(&o.to_bytes);
            let (d, rest) = Ipv4Header::from_slice(&wt).unwrap();
            o.dec_f = f_ipv4_h(&d); o.rest = rest.len() as i64 - 3; o.eq = b2i(d == h);
            let mut c = Cursor::new(&wt[..]);
            o.read_eq = b2i(Ipv4Header::read(&mut c).map(|x| x == h).unwrap_or(false)); o.read_used = c.position() as i64;
            // write(): identical except for the checksum field, which must be the header's real checksum
            let mut w2: Vec<u8> = vec![];
            h.write(&mut w2).unwrap();
            let mut exp = o.to_bytes.clone();
            let cs = h.calc_header_checksum().to_be_bytes();
            exp[10] = cs[0]; exp[11] = cs[1];
            o.from_bytes_eq = b2i(w2 == exp);
            o.write2 = w2;
        }
        "auth" => {
            let h = IpAuthHeader::new(IpNumber(f[0] as u8), be32(&f[1..]), be32(&f[5..]), &u8s(&f[9..])).unwrap();
            common!(o, h, h.to_bytes().to_vec(), h.header_len());
            let wt = with_tail(&o.to_bytes);
            let (d, rest) = IpAuthHeader::from_slice(&wt).unwrap();
            o.dec_f = f_auth_h(&d); o.rest = rest.len() as i64 - 3; o.eq = b2i(d == h);
            let mut c = Cursor::new(&wt[..]);
            o.read_eq = b2i(IpAuthHeader::read(&mut c).map(|x| x == h).unwrap_or(false)); o.read_used = c.position() as i64;
            // same value through a longer ICV that is then replaced
            let mut h2 = IpAuthHeader::new(IpNumber(f[0] as u8), be32(&f[1..]), be32(&f[5..]), &[0xEEu8; 1016]).unwrap();
            h2.set_raw_icv(&u8s(&f[9..])).unwrap();
            let b2 = h2.to_bytes();
            o.alt = b2i(h2 == h && b2[..] == o.to_bytes[..] && IpAuthHeader::from_slice(&b2).map(|x| x.0 == h2).unwrap_or(false)
                        && format!("{:?}", h2) == format!("{:?}", h));
        }
        "ipv6" => {
            let fl = ((f[1] as u32) << 16) | ((f[2] as u32) << 8) | f[3] as u32;
            let h = Ipv6Header { traffic_class: f[0] as u8, flow_label: Ipv6FlowLabel::try_new(fl).unwrap(), payload_length: f[4] as u16, next_header: IpNumber(f[5] as u8),
                                 hop_limit: f[6] as u8, source: arr::<16>(&f[7..]), destination: arr::<16>(&f[23..]) };
            common!(o, h, h.to_bytes().to_vec(), h.header_len());
            let wt = with_tail(&o.to_bytes);
            let (d, rest) = Ipv6Header::from_slice(&wt).unwrap();
            o.dec_f = f_ipv6_h(&d); o.rest = rest.len() as i64 - 3; o.eq = b2i(d == h);
            let mut c = Cursor::new(&wt[..]);
            o.read_eq = b2i(Ipv6Header::read(&mut c).map(|x| x == h).unwrap_or(false)); o.read_used = c.position() as i64;
        }
        "udp" => {
            let h = UdpHeader { source_port: f[0] as u16, destination_port: f[1] as u16, length: f[2] as u16, checksum: f[3] as u16 };
            common!(o, h, h.to_bytes().to_vec(), h.header_len());
            let wt = with_tail(&o.to_bytes);
            let (d, rest) = UdpHeader::from_slice(&wt).unwrap();
            o.dec_f = f_udp_h(&d); o.rest = rest.len() as i64 - 3; o.eq = b2i(d == h);
            o.from_bytes_eq = b2i(UdpHeader::from_bytes(h.to_bytes()) == h);
            let mut c = Cursor::new(&wt[..]);
            o.read_eq = b2i(UdpHeader::read(&mut c).map(|x| x == h).unwrap_or(false)); o.read_used = c.position() as i64;
        }
        "tcp" => {
            let mut h = TcpHeader::new(f[0] as u16, f[1] as u16, be32(&f[2..]), f[12] as u16);
            h.acknowledgment_number = be32(&f[6..]);
            let fl = f[11];
            h.ns = fl & 256 != 0; h.cwr = fl & 128 != 0; h.ece = fl & 64 != 0; h.urg = fl & 32 != 0; h.ack = fl & 16 != 0; h.psh = fl & 8 != 0; h.rst = fl & 4 != 0; h.syn = fl & 2 != 0; h.fin = fl & 1 != 0;
            h.checksum = f[13] as u16; h.urgent_pointer = f[14] as u16;
            h.options = TcpOptions::try_from_slice(&u8s(&f[15..])).unwrap();
            common!(o, h, h.to_bytes().to_vec(), h.header_len());
            let wt = with_tail(&o.to_bytes);
            let (d, rest) = TcpHeader::from_slice(&wt).unwrap();
            o.dec_f = f_tcp_h(&d); o.rest = rest.len() as i64 - 3; o.eq = b2i(d == h);
            let mut c = Cursor::new(&wt[..]);
            o.read_eq = b2i(TcpHeader::read(&mut c).map(|x| x == h).unwrap_or(false)); o.read_used = c.position() as i64;
        }
        "frag" => {
            let h = Ipv6FragmentHeader::new(IpNumber(f[0] as u8), IpFragOffset::try_new(f[1] as u16).unwrap(), f[2] == 1, be32(&f[3..]));
            common!(o, h, h.to_bytes().to_vec(), h.header_len());
            let wt = with_tail(&o.to_bytes);
            let (d, rest) = Ipv6FragmentHeader::from_slice(&wt).unwrap();
            o.dec_f = vec![d.next_header.0 as i64, d.fragment_offset.value() as i64, b2i(d.more_fragments)];
            o.dec_f.extend(bytes_v(&d.identification.to_be_bytes()));
            o.rest = rest.len() as i64 - 3; o.eq = b2i(d == h);
            let mut c = Cursor::new(&wt[..]);
            o.read_eq = b2i(Ipv6FragmentHeader::read(&mut c).map(|x| x == h).unwrap_or(false)); o.read_used = c.position() as i64;
        }
        "rawext" => {
            let h = Ipv6RawExtHeader::new_raw(IpNumber(f[0] as u8), &u8s(&f[1..])).unwrap();
            common!(o, h, h.to_bytes().to_vec(), h.header_len());
            let wt = with_tail(&o.to_bytes);
            let (d, rest) = Ipv6RawExtHeader::from_slice(&wt).unwrap();
            o.dec_f = vec![d.next_header.0 as i64];
            o.dec_f.extend(bytes_v(d.payload()));
            o.rest = rest.len() as i64 - 3; o.eq = b2i(d == h);
            let mut c = Cursor::new(&wt[..]);
            o.read_eq = b2i(Ipv6RawExtHeader::read(&mut c).map(|x| x == h).unwrap_or(false)); o.read_used = c.position() as i64;
            // same value through a longer payload that is then replaced
            let mut h2 = Ipv6RawExtHeader::new_raw(IpNumber(f[0] as u8), &[0xEEu8; Ipv6RawExtHeader::MAX_PAYLOAD_LEN]).unwrap();
            h2.set_payload(&u8s(&f[1..])).unwrap();
            let b2 = h2.to_bytes();
            o.alt = b2i(h2 == h && b2[..] == o.to_bytes[..] && Ipv6RawExtHeader::from_slice(&b2).map(|x| x.0 == h2).unwrap_or(false)
                        && format!("{:?}", h2) == format!("{:?}", h));
        }
        "icmp6" => {
            let h = Icmpv6Header { icmp_type: Icmpv6Type::Unknown { type_u8: f[0] as u8, code_u8: f[1] as u8, bytes5to8: arr::<4>(&f[3..]) }, checksum: f[2] as u16 };
            common!(o, h, h.to_bytes().to_vec(), h.header_len());
            let wt = with_tail(&o.to_bytes);
            let (d, rest) = Icmpv6Header::from_slice(&wt).unwrap();
            let db = d.to_bytes();
            o.dec_f = vec![db[0] as i64, db[1] as i64, d.checksum as i64, db[4] as i64, db[5] as i64, db[6] as i64, db[7] as i64];
            o.rest = rest.len() as i64 - 3; o.eq = b2i(d == h);
            let mut c = Cursor::new(&wt[..]);
            o.read_eq = b2i(Icmpv6Header::read(&mut c).map(|x| x == h).unwrap_or(false)); o.read_used = c.position() as i64;
        }
        other => panic!("unknown type {}", other),
    }
    o.json(id, ty, f)
}

/// decode -> re-encode -> decode of an accepted byte string (reserved bits may be set)
pub fn bytes_case(id: &str, ty: &str, b: &[u8]) -> Value {
    let (dec_f, re, again): (Vec<i64>, Vec<u8>, i64) = match ty {
        "ipv4" => { let (d, _) = Ipv4Header::from_slice(b).unwrap(); let re = d.to_bytes().to_vec(); let a = b2i(Ipv4Header::from_slice(&re).unwrap().0 == d); (f_ipv4_h(&d), re, a) }
        "tcp" => { let (d, _) = TcpHeader::from_slice(b).unwrap(); let re = d.to_bytes().to_vec(); let a = b2i(TcpHeader::from_slice(&re).unwrap().0 == d); (f_tcp_h(&d), re, a) }
        "auth" => { let (d, _) = IpAuthHeader::from_slice(b).unwrap(); let re = d.to_bytes().to_vec(); let a = b2i(IpAuthHeader::from_slice(&re).unwrap().0 == d); (f_auth_h(&d), re, a) }
        "frag" => {
            let (d, _) = Ipv6FragmentHeader::from_slice(b).unwrap();
            let re = d.to_bytes().to_vec();
            let a = b2i(Ipv6FragmentHeader::from_slice(&re).unwrap().0 == d);
            let mut f = vec![d.next_header.0 as i64, d.fragment_offset.value() as i64, b2i(d.more_fragments)];
            f.extend(bytes_v(&d.identification.to_be_bytes()));
            (f, re, a)
        }
        "macsec" => { let d = MacsecHeader::from_slice(b).unwrap(); let re = d.to_bytes().to_vec(); let a = b2i(MacsecHeader::from_slice(&re).unwrap() == d); (f_macsec_h(&d), re, a) }
        other => panic!("no bytes case for {}", other),
    };
    json!({"ev": "wire_bytes", "id": id, "type": ty, "bytes": b, "dec_f": dec_f, "re": re, "again": again})
}

/// ANY byte string through both decoders of a header type (from_slice, io::Read): whatever a decoder accepts must re-encode to bytes that
/// BOTH decoders accept and decode to the same value again (C08, last clause); [accepted, stable] per door
fn any_case(id: &str, ty: &str, b: &[u8]) -> Value {
    use crate::io::Any;
    let stable = |v: &Any| -> i64 {
        let re = v.bytes();
        let a = Any::from_slice(ty, &re).map(|(x, used)| x.bytes() == re && used == re.len()).unwrap_or(false);
        let mut c = Cursor::new(&re[..]);
        let r = Any::read(ty, &mut c).map(|x| x.bytes() == re).unwrap_or(false) && c.position() as usize == re.len();
        // icmp4 timestamps decode only from a slice that ends with the header: the re-encoding does
        b2i(a && r)
    };
    let mut sre: Vec<u8> = vec![];
    let sl = match Any::from_slice(ty, b) { Ok((v, _)) => { sre = v.bytes(); vec![1, stable(&v)] } Err(_) => vec![0, -1] };
    let mut c = Cursor::new(b);
    let mut rre: Vec<u8> = vec![];
    let rd = match Any::read(ty, &mut c) { Ok(v) => { rre = v.bytes(); vec![1, stable(&v)] } Err(_) => vec![0, -1] };
    json!({"ev": "wire_any", "id": id, "type": ty, "bytes": b, "slice": sl, "read": rd, "sre": sre, "rre": rre})
}

pub fn run_case(id: &str, c: &Value) -> Value {
    let ty = c["type"].as_str().unwrap().to_string();
    let kind = c["kind"].as_str().unwrap().to_string();
    let r = catch_unwind(AssertUnwindSafe(|| {
        if kind == "any" {
            any_case(id, &ty, &u8s(&ints(&c["bytes"])))
        } else if kind == "value" {
            value_case(id, &ty, &ints(&c["f"]))
        } else {
            bytes_case(id, &ty, &u8s(&ints(&c["bytes"])))
        }
    }));
    r.unwrap_or_else(|_| json!({"ev": "panic", "id": id, "type": ty}))
}
