pub mod defrag;
pub mod errp;
pub mod extchain;
pub mod gen;
pub mod guard;
pub mod proj;
pub mod runs;
pub mod util;
