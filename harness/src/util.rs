//! small helpers shared by the driver sub commands
use std::fs::File;
use std::io::{BufWriter, Write};
use std::os::unix::fs::FileExt;

/// Progress marker: the id of the case that is about to run is written to a side file
/// before the case starts, so that the parent can attribute a fatal signal (SIGSEGV on a
/// guard page, SIGABRT from an unsafe precondition check) to one concrete case.
pub struct Marker {
    f: Option<File>,
}
impl Marker {
    pub fn new(path: Option<&str>) -> Marker {
        Marker { f: path.map(|p| File::create(p).expect("marker file")) }
    }
    pub fn set(&self, id: &str) {
        if let Some(f) = &self.f {
            let mut buf = [b' '; 64];
            let n = id.len().min(63);
            buf[..n].copy_from_slice(&id.as_bytes()[..n]);
            buf[63] = b'\n';
            let _ = f.write_at(&buf, 0);
        }
    }
}

pub struct Out {
    w: BufWriter<File>,
    pub lines: usize,
}
impl Out {
    pub fn new(path: &str) -> Out {
        Out { w: BufWriter::with_capacity(1 << 20, File::create(path).expect("out file")), lines: 0 }
    }
    pub fn line(&mut self, v: &serde_json::Value) {
        serde_json::to_writer(&mut self.w, v).unwrap();
        self.w.write_all(b"\n").unwrap();
        self.lines += 1;
    }
    pub fn finish(mut self) {
        self.w.flush().unwrap();
    }
}

pub struct Args {
    pub v: Vec<String>,
}
impl Args {
    pub fn new() -> Args {
        Args { v: std::env::args().collect() }
    }
    pub fn get(&self, key: &str) -> Option<&str> {
        let k = format!("--{}", key);
        self.v.iter().position(|a| *a == k).and_then(|i| self.v.get(i + 1)).map(|s| s.as_str())
    }
    pub fn num(&self, key: &str, default: u64) -> u64 {
        self.get(key).map(|s| s.parse().expect("numeric argument")).unwrap_or(default)
    }
    pub fn skip_ids(&self) -> std::collections::HashSet<String> {
        self.get("skip").map(|s| s.split(',').filter(|x| !x.is_empty()).map(|x| x.to_string()).collect()).unwrap_or_default()
    }
}
