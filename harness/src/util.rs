//! small helpers shared by the driver sub commands
use std::fs::File;
use std::io::{BufWriter, Write};
use std::os::unix::fs::FileExt;

/// Progress marker: the id of the case that is about to run is written to a side file
/// before the case starts, so that the parent can attribute a fatal signal (SIGSEGV on a
/// guard page, SIGABRT from an unsafe precondition check) to one concrete case.
pub struct Marker {
    f: Option<File>,
}
/// number of cases started so far (the watchdog aborts the process when it stops moving)
pub static TICK: std::sync::atomic::AtomicU64 = std::sync::atomic::AtomicU64::new(0);

/// A case of the code under test that does not terminate or eats memory without bound must not take the machine down:
/// the address space of the driver is limited and a watchdog aborts the process when one case runs longer than
/// VERIF_CASE_TIMEOUT seconds (default 60).  The parent attributes the abort to the marked case (a hang is data, C02).
pub fn contain() {
    unsafe {
        let lim = libc::rlimit { rlim_cur: 8 << 30, rlim_max: 8 << 30 };
        libc::setrlimit(libc::RLIMIT_AS, &lim);
    }
    let limit: u64 = std::env::var("VERIF_CASE_TIMEOUT").ok().and_then(|s| s.parse().ok()).unwrap_or(60);
    std::thread::spawn(move || {
        let mut last = TICK.load(std::sync::atomic::Ordering::Relaxed);
        let mut since = std::time::Instant::now();
        loop {
            std::thread::sleep(std::time::Duration::from_millis(500));
            let now = TICK.load(std::sync::atomic::Ordering::Relaxed);
            if now != last {
                last = now;
                since = std::time::Instant::now();
            } else if now > 0 && since.elapsed().as_secs() >= limit {
                eprintln!("watchdog: the marked case did not finish within {} s (hang or unbounded loop in the code under test)", limit);
                std::process::abort();
            }
        }
    });
}
/// second marker: the entry point that is running on the marked case (a fatal signal is attributed to it)
static API_MARK: std::sync::OnceLock<File> = std::sync::OnceLock::new();
pub fn mark_api(name: &str, mode: &str, fam: &str) {
    if let Some(f) = API_MARK.get() {
        let mut buf = [b' '; 128];
        let s = format!("{}|{}|{}", name, mode, fam);
        let n = s.len().min(127);
        buf[..n].copy_from_slice(&s.as_bytes()[..n]);
        buf[127] = b'\n';
        let _ = f.write_at(&buf, 0);
    }
}

impl Marker {
    pub fn new(path: Option<&str>) -> Marker {
        if let Some(p) = path {
            let _ = API_MARK.set(File::create(format!("{}.api", p)).expect("api marker file"));
        }
        Marker { f: path.map(|p| File::create(p).expect("marker file")) }
    }
    pub fn set(&self, id: &str) {
        TICK.fetch_add(1, std::sync::atomic::Ordering::Relaxed);
        if let Some(f) = &self.f {
            let mut buf = [b' '; 64];
            let n = id.len().min(63);
            buf[..n].copy_from_slice(&id.as_bytes()[..n]);
            buf[63] = b'\n';
            let _ = f.write_at(&buf, 0);
        }
    }
}

pub struct Out {
    w: BufWriter<File>,
    pub lines: usize,
}
impl Out {
    pub fn new(path: &str) -> Out {
        Out { w: BufWriter::with_capacity(1 << 20, File::create(path).expect("out file")), lines: 0 }
    }
    pub fn line(&mut self, v: &serde_json::Value) {
        serde_json::to_writer(&mut self.w, v).unwrap();
        self.w.write_all(b"\n").unwrap();
        self.lines += 1;
    }
    pub fn finish(mut self) {
        self.w.flush().unwrap();
    }
}

pub struct Args {
    pub v: Vec<String>,
}
impl Args {
    pub fn new() -> Args {
        Args { v: std::env::args().collect() }
    }
    pub fn get(&self, key: &str) -> Option<&str> {
        let k = format!("--{}", key);
        self.v.iter().position(|a| *a == k).and_then(|i| self.v.get(i + 1)).map(|s| s.as_str())
    }
    pub fn num(&self, key: &str, default: u64) -> u64 {
        self.get(key).map(|s| s.parse().expect("numeric argument")).unwrap_or(default)
    }
    pub fn skip_ids(&self) -> std::collections::HashSet<String> {
        self.get("skip").map(|s| s.split(',').filter(|x| !x.is_empty()).map(|x| x.to_string()).collect()).unwrap_or_default()
    }
}
