//! Projection functions: real decode results -> the abstract state of spec/Decoder.tla.
//! Layer = {k, off, hlen, f (field values), p (own payload)}, payload = {k, off, len, src, num, frag, inc}.
use crate::errp::*;
use etherparse::*;
use serde_json::{json, Value};
use std::cell::Cell;

/// Input buffer context: turns returned sub-slices into (offset, len) relative to the input
/// and remembers whether any returned slice was outside of the input (C01).
pub struct Ctx {
    pub base: usize,
    pub len: usize,
    pub oob: Cell<u32>,
}

impl Ctx {
    pub fn new(b: &[u8]) -> Ctx {
        Ctx { base: b.as_ptr() as usize, len: b.len(), oob: Cell::new(0) }
    }
    /// (offset, len) of a returned slice. A non empty slice must lie inside the input.
    /// An empty slice that does not point into the input has no meaningful offset (-1).
    pub fn rg(&self, s: &[u8]) -> (i64, i64) {
        let p = s.as_ptr() as usize;
        if p >= self.base && p + s.len() <= self.base + self.len {
            ((p - self.base) as i64, s.len() as i64)
        } else if s.is_empty() {
            (-1, 0)
        } else {
            self.oob.set(self.oob.get() + 1);
            (-2, s.len() as i64)
        }
    }
}

pub fn b2i(b: bool) -> i64 {
    if b { 1 } else { 0 }
}
pub fn bytes_v(s: &[u8]) -> Vec<i64> {
    s.iter().map(|x| *x as i64).collect()
}

pub fn no_pay() -> Value {
    json!({"k": "none", "off": -1, "len": -1, "src": "", "num": -1, "frag": -1, "inc": -1})
}
pub fn pay(ctx: &Ctx, k: &str, s: &[u8], src: &str, num: i64, frag: i64, inc: i64) -> Value {
    let (off, len) = ctx.rg(s);
    json!({"k": k, "off": off, "len": len, "src": src, "num": num, "frag": frag, "inc": inc})
}
pub fn layer(ctx: &Ctx, k: &str, hdr: &[u8], f: Vec<i64>, p: Value) -> Value {
    let (off, len) = ctx.rg(hdr);
    json!({"k": k, "off": off, "hlen": len, "f": f, "p": p})
}
/// layer of an owned header struct (no offset available)
pub fn hlayer(k: &str, hlen: usize, f: Vec<i64>) -> Value {
    json!({"k": k, "off": -1, "hlen": hlen, "f": f, "p": no_pay()})
}

pub struct Res {
    pub v: &'static str,
    pub layers: Vec<Value>,
    pub pay: Value,
    pub err: ErrP,
    /// what the convenience accessors of a whole-packet result report (vlan(), vlan_ids(), ether_payload(), ip_payload(), ...)
    pub conv: Value,
    /// kinds of the layers whose to_header() / to_packet() conversion does not hold the values the slice accessors report (C04)
    pub tohdr: Vec<String>,
    /// conversions of the returned error that changed what it says
    pub econv: Vec<String>,
}
fn th(r: &mut Res, k: &str, same: bool) {
    if !same && !r.tohdr.iter().any(|x| x == k) {
        r.tohdr.push(k.to_string());
    }
}
pub fn no_conv() -> Value {
    json!({"has": 0, "vlan_ids": [], "vlan": [], "epay": no_pay(), "ipay": no_pay(), "pet": -2, "frag": -2, "mism": []})
}
fn vlan_conv(ids: &[VlanId], v: Option<(i64, i64, i64)>) -> (Vec<i64>, Vec<i64>) {
    (ids.iter().map(|x| x.value() as i64).collect(), match v { None => vec![0, -1, -1], Some((n, a, b)) => vec![n, a, b] })
}
fn vlan_slice_ids(v: &Option<VlanSlice>) -> Option<(i64, i64, i64)> {
    match v {
        None => None,
        Some(VlanSlice::SingleVlan(s)) => Some((1, s.vlan_identifier().value() as i64, -1)),
        Some(VlanSlice::DoubleVlan(d)) => Some((2, d.outer.vlan_identifier().value() as i64, d.inner.vlan_identifier().value() as i64)),
    }
}
fn vlan_hdr_ids(v: &Option<VlanHeader>) -> Option<(i64, i64, i64)> {
    match v {
        None => None,
        Some(VlanHeader::Single(s)) => Some((1, s.vlan_id.value() as i64, -1)),
        Some(VlanHeader::Double(d)) => Some((2, d.outer.vlan_id.value() as i64, d.inner.vlan_id.value() as i64)),
    }
}
impl Res {
    pub fn new() -> Res {
        Res { v: "ok", layers: vec![], pay: no_pay(), err: ErrP::none(), conv: no_conv(), tohdr: vec![], econv: vec![] }
    }
    pub fn err(e: ErrP) -> Res {
        Res { v: "err", layers: vec![], pay: no_pay(), err: e, conv: no_conv(), tohdr: vec![], econv: vec![] }
    }
    pub fn json(&self, ctx: &Ctx) -> Value {
        json!({"v": self.v, "layers": self.layers, "pay": self.pay, "err": self.err.json(), "oob": ctx.oob.get(), "conv": self.conv, "tohdr": self.tohdr, "econv": self.econv})
    }
}

// ---------------------------------------------------------------------------
// field sequences (must mirror spec/Wire.tla Fld*)

pub fn f_eth(e: &Ethernet2Slice) -> Vec<i64> {
    let mut f = bytes_v(&e.destination());
    f.extend(bytes_v(&e.source()));
    f.push(e.ether_type().0 as i64);
    f
}
pub fn f_eth_h(e: &Ethernet2Header) -> Vec<i64> {
    let mut f = bytes_v(&e.destination);
    f.extend(bytes_v(&e.source));
    f.push(e.ether_type.0 as i64);
    f
}
/// meaning of the protocol type field (mirrors Wire!SllProtoKind)
pub fn sll_proto_kind(p: LinuxSllProtocolType) -> i64 {
    match p {
        LinuxSllProtocolType::Ignored(_) => 0,
        LinuxSllProtocolType::NetlinkProtocolType(_) => 1,
        LinuxSllProtocolType::GenericRoutingEncapsulationProtocolType(_) => 2,
        LinuxSllProtocolType::EtherType(_) => 3,
        LinuxSllProtocolType::LinuxNonstandardEtherType(_) => 4,
    }
}
pub fn f_sll(s: &LinuxSllSlice) -> Vec<i64> {
    let mut f = vec![u16::from(s.packet_type()) as i64, u16::from(s.arp_hardware_type()) as i64, s.sender_address_valid_length() as i64];
    f.extend(bytes_v(&s.sender_address_full()));
    f.push(u16::from(s.protocol_type()) as i64);
    f.push(sll_proto_kind(s.protocol_type()));
    f
}
pub fn f_sll_h(s: &LinuxSllHeader) -> Vec<i64> {
    let mut f = vec![u16::from(s.packet_type) as i64, u16::from(s.arp_hrd_type) as i64, s.sender_address_valid_length as i64];
    f.extend(bytes_v(&s.sender_address));
    f.push(u16::from(s.protocol_type) as i64);
    f.push(sll_proto_kind(s.protocol_type));
    f
}
pub fn f_vlan(v: &SingleVlanSlice) -> Vec<i64> {
    vec![v.priority_code_point().value() as i64, b2i(v.drop_eligible_indicator()), v.vlan_identifier().value() as i64, v.ether_type().0 as i64]
}
pub fn f_vlan_h(v: &SingleVlanHeader) -> Vec<i64> {
    vec![v.pcp.value() as i64, b2i(v.drop_eligible_indicator), v.vlan_id.value() as i64, v.ether_type.0 as i64]
}
fn ptype_code(p: MacsecPType) -> (i64, i64) {
    match p {
        MacsecPType::Unmodified(e) => (0, e.0 as i64),
        MacsecPType::Modified => (1, -1),
        MacsecPType::Encrypted => (2, -1),
        MacsecPType::EncryptedUnmodified => (3, -1),
    }
}
pub fn f_macsec(m: &MacsecHeaderSlice) -> Vec<i64> {
    let (pt, et) = ptype_code(m.ptype());
    let mut f = vec![pt, et, b2i(m.endstation_id()), b2i(m.tci_scb()), m.an().value() as i64, m.short_len().value() as i64];
    f.extend(bytes_v(&m.packet_nr().to_be_bytes()));
    match m.sci() {
        Some(s) => {
            f.push(1);
            f.extend(bytes_v(&s.to_be_bytes()));
        }
        None => f.push(0),
    }
    f
}
pub fn f_macsec_h(m: &MacsecHeader) -> Vec<i64> {
    let (pt, et) = ptype_code(m.ptype);
    let mut f = vec![pt, et, b2i(m.endstation_id), b2i(m.scb), m.an.value() as i64, m.short_len.value() as i64];
    f.extend(bytes_v(&m.packet_nr.to_be_bytes()));
    match m.sci {
        Some(s) => {
            f.push(1);
            f.extend(bytes_v(&s.to_be_bytes()));
        }
        None => f.push(0),
    }
    f
}
pub fn f_arp(a: &ArpPacketSlice) -> Vec<i64> {
    let mut f = vec![a.hw_addr_type().0 as i64, a.proto_addr_type().0 as i64, a.hw_addr_size() as i64, a.proto_addr_size() as i64, a.operation().0 as i64];
    f.extend(bytes_v(a.sender_hw_addr()));
    f.extend(bytes_v(a.sender_protocol_addr()));
    f.extend(bytes_v(a.target_hw_addr()));
    f.extend(bytes_v(a.target_protocol_addr()));
    f
}
pub fn f_arp_h(a: &ArpPacket) -> Vec<i64> {
    let mut f = vec![a.hw_addr_type.0 as i64, a.proto_addr_type.0 as i64, a.hw_addr_size() as i64, a.protocol_addr_size() as i64, a.operation.0 as i64];
    f.extend(bytes_v(a.sender_hw_addr()));
    f.extend(bytes_v(a.sender_protocol_addr()));
    f.extend(bytes_v(a.target_hw_addr()));
    f.extend(bytes_v(a.target_protocol_addr()));
    f
}
pub fn f_ipv4(h: &Ipv4HeaderSlice) -> Vec<i64> {
    let mut f = vec![
        h.dcp().value() as i64, h.ecn().value() as i64, h.total_len() as i64, h.identification() as i64,
        b2i(h.dont_fragment()), b2i(h.more_fragments()), h.fragments_offset().value() as i64,
        h.ttl() as i64, h.protocol().0 as i64, h.header_checksum() as i64,
    ];
    f.extend(bytes_v(&h.source()));
    f.extend(bytes_v(&h.destination()));
    f.extend(bytes_v(h.options()));
    f
}
pub fn f_ipv4_h(h: &Ipv4Header) -> Vec<i64> {
    let mut f = vec![
        h.dscp.value() as i64, h.ecn.value() as i64, h.total_len as i64, h.identification as i64,
        b2i(h.dont_fragment), b2i(h.more_fragments), h.fragment_offset.value() as i64,
        h.time_to_live as i64, h.protocol.0 as i64, h.header_checksum as i64,
    ];
    f.extend(bytes_v(&h.source));
    f.extend(bytes_v(&h.destination));
    f.extend(bytes_v(h.options.as_slice()));
    f
}
pub fn f_auth(a: &IpAuthHeaderSlice) -> Vec<i64> {
    let mut f = vec![a.next_header().0 as i64];
    f.extend(bytes_v(&a.spi().to_be_bytes()));
    f.extend(bytes_v(&a.sequence_number().to_be_bytes()));
    f.extend(bytes_v(a.raw_icv()));
    f
}
pub fn f_auth_h(a: &IpAuthHeader) -> Vec<i64> {
    let mut f = vec![a.next_header.0 as i64];
    f.extend(bytes_v(&a.spi.to_be_bytes()));
    f.extend(bytes_v(&a.sequence_number.to_be_bytes()));
    f.extend(bytes_v(a.raw_icv()));
    f
}
pub fn f_ipv6(h: &Ipv6HeaderSlice) -> Vec<i64> {
    let fl = h.flow_label().value();
    let mut f = vec![
        h.traffic_class() as i64, ((fl >> 16) & 0xf) as i64, ((fl >> 8) & 0xff) as i64, (fl & 0xff) as i64,
        h.payload_length() as i64, h.next_header().0 as i64, h.hop_limit() as i64,
    ];
    f.extend(bytes_v(&h.source()));
    f.extend(bytes_v(&h.destination()));
    f
}
pub fn f_ipv6_h(h: &Ipv6Header) -> Vec<i64> {
    let fl = h.flow_label.value();
    let mut f = vec![
        h.traffic_class as i64, ((fl >> 16) & 0xf) as i64, ((fl >> 8) & 0xff) as i64, (fl & 0xff) as i64,
        h.payload_length as i64, h.next_header.0 as i64, h.hop_limit as i64,
    ];
    f.extend(bytes_v(&h.source));
    f.extend(bytes_v(&h.destination));
    f
}
/// extension chain as the slice iterator reports it: (ip number, offset, len, next header) per header
pub fn f_exts(ctx: &Ctx, e: &Ipv6ExtensionsSlice) -> Vec<i64> {
    let mut f = vec![];
    let mut budget = 600; // C02: the iterator must terminate well within the number of bytes
    for x in e.clone().into_iter() {
        use Ipv6ExtensionSlice::*;
        let (n, s, nh): (i64, &[u8], i64) = match &x {
            HopByHop(r) => (0, r.slice(), r.next_header().0 as i64),
            Routing(r) => (43, r.slice(), r.next_header().0 as i64),
            Fragment(r) => (44, r.slice(), r.next_header().0 as i64),
            DestinationOptions(r) => (60, r.slice(), r.next_header().0 as i64),
            Authentication(r) => (51, r.slice(), r.next_header().0 as i64),
        };
        let (off, len) = ctx.rg(s);
        f.extend([n, off, len, nh]);
        budget -= 1;
        if budget == 0 {
            f.push(-99);
            break;
        }
    }
    f
}
/// extension struct in decode order is not available; report in slot order:
/// (ip number, -1, header_len, next header); final destination options use number 60 as well
pub fn f_exts_h(e: &Ipv6Extensions) -> (Vec<i64>, usize) {
    let mut f = vec![];
    let mut total = 0;
    let mut push = |n: i64, len: usize, nh: i64| {
        f.extend([n, -1, len as i64, nh]);
        total += len;
    };
    if let Some(h) = &e.hop_by_hop_options {
        push(0, h.header_len(), h.next_header.0 as i64);
    }
    if let Some(h) = &e.destination_options {
        push(60, h.header_len(), h.next_header.0 as i64);
    }
    if let Some(r) = &e.routing {
        push(43, r.routing.header_len(), r.routing.next_header.0 as i64);
    }
    if let Some(h) = &e.fragment {
        push(44, h.header_len(), h.next_header.0 as i64);
    }
    if let Some(h) = &e.auth {
        push(51, h.header_len(), h.next_header.0 as i64);
    }
    if let Some(r) = &e.routing {
        if let Some(h) = &r.final_destination_options {
            push(61, h.header_len(), h.next_header.0 as i64);
        }
    }
    (f, total)
}
pub fn f_udp(u: &UdpSlice) -> Vec<i64> {
    vec![u.source_port() as i64, u.destination_port() as i64, u.length() as i64, u.checksum() as i64]
}
pub fn f_udp_h(u: &UdpHeader) -> Vec<i64> {
    vec![u.source_port as i64, u.destination_port as i64, u.length as i64, u.checksum as i64]
}
pub fn f_tcp(t: &TcpSlice) -> Vec<i64> {
    let mut f = vec![t.source_port() as i64, t.destination_port() as i64];
    f.extend(bytes_v(&t.sequence_number().to_be_bytes()));
    f.extend(bytes_v(&t.acknowledgment_number().to_be_bytes()));
    let flags = b2i(t.ns()) << 8 | b2i(t.cwr()) << 7 | b2i(t.ece()) << 6 | b2i(t.urg()) << 5 | b2i(t.ack()) << 4 | b2i(t.psh()) << 3 | b2i(t.rst()) << 2 | b2i(t.syn()) << 1 | b2i(t.fin());
    f.extend([t.data_offset() as i64, flags, t.window_size() as i64, t.checksum() as i64, t.urgent_pointer() as i64]);
    f.extend(bytes_v(t.options()));
    f
}
pub fn f_tcp_h(t: &TcpHeader) -> Vec<i64> {
    let mut f = vec![t.source_port as i64, t.destination_port as i64];
    f.extend(bytes_v(&t.sequence_number.to_be_bytes()));
    f.extend(bytes_v(&t.acknowledgment_number.to_be_bytes()));
    let flags = b2i(t.ns) << 8 | b2i(t.cwr) << 7 | b2i(t.ece) << 6 | b2i(t.urg) << 5 | b2i(t.ack) << 4 | b2i(t.psh) << 3 | b2i(t.rst) << 2 | b2i(t.syn) << 1 | b2i(t.fin);
    f.extend([t.data_offset() as i64, flags, t.window_size as i64, t.checksum as i64, t.urgent_pointer as i64]);
    f.extend(bytes_v(t.options.as_slice()));
    f
}
pub fn f_icmp(ty: u8, code: u8, cks: u16, b58: [u8; 4]) -> Vec<i64> {
    let mut f = vec![ty as i64, code as i64, cks as i64];
    f.extend(bytes_v(&b58));
    f
}

// ---------------------------------------------------------------------------
// slice family

pub fn ether_pay(ctx: &Ctx, e: &EtherPayloadSlice) -> Value {
    pay(ctx, "ether", e.payload, src_s(e.len_source), e.ether_type.0 as i64, -1, -1)
}
pub fn lax_ether_pay(ctx: &Ctx, e: &LaxEtherPayloadSlice) -> Value {
    pay(ctx, "ether", e.payload, src_s(e.len_source), e.ether_type.0 as i64, -1, b2i(e.incomplete))
}
pub fn ip_pay(ctx: &Ctx, p: &IpPayloadSlice) -> Value {
    pay(ctx, "ip", p.payload, src_s(p.len_source), p.ip_number.0 as i64, b2i(p.fragmented), -1)
}
pub fn lax_ip_pay(ctx: &Ctx, p: &LaxIpPayloadSlice) -> Value {
    pay(ctx, "ip", p.payload, src_s(p.len_source), p.ip_number.0 as i64, b2i(p.fragmented), b2i(p.incomplete))
}
pub fn sll_pay(ctx: &Ctx, p: &LinuxSllPayloadSlice) -> Value {
    pay(ctx, "sll", p.payload, "Slice", u16::from(p.protocol_type) as i64, -1, -1)
}

/// link layer of the slice family; lax: the incomplete flag of ether payloads is FALSE at this level
pub fn link_layer(ctx: &Ctx, r: &mut Res, l: &LinkSlice, lax: bool) {
    match l {
        LinkSlice::Ethernet2(e) => {
            let mut p = ether_pay(ctx, &e.payload());
            if lax {
                p["inc"] = json!(0);
            }
            // payload_slice() must be the same range as payload().payload
            if ctx.rg(e.payload_slice()) != ctx.rg(e.payload().payload) {
                ctx.oob.set(ctx.oob.get() + 1000);
            }
            r.layers.push(layer(ctx, "eth", e.header_slice_compat(), f_eth(e), p.clone()));
            th(r, "eth", f_eth_h(&e.to_header()) == f_eth(e));
            r.pay = p;
        }
        LinkSlice::LinuxSll(s) => {
            let sp = s.payload();
            let p = sll_pay(ctx, &sp);
            r.layers.push(layer(ctx, "sll", &s.slice()[..16.min(s.slice().len())], f_sll(s), p.clone()));
            th(r, "sll", f_sll_h(&s.to_header()) == f_sll(s));
            r.pay = match sp.protocol_type {
                LinuxSllProtocolType::EtherType(et) => pay(ctx, "ether", sp.payload, "Slice", et.0 as i64, -1, if lax { 0 } else { -1 }),
                _ => p,
            };
        }
        LinkSlice::EtherPayload(e) => {
            let mut p = ether_pay(ctx, e);
            if lax {
                p["inc"] = json!(0);
            }
            r.pay = p;
        }
        LinkSlice::LinuxSllPayload(p) => {
            r.pay = sll_pay(ctx, p);
        }
    }
}

trait HdrCompat {
    fn header_slice_compat(&self) -> &[u8];
}
impl<'a> HdrCompat for Ethernet2Slice<'a> {
    fn header_slice_compat(&self) -> &[u8] {
        let s = self.slice();
        &s[..14.min(s.len())]
    }
}

pub fn transport_layer(ctx: &Ctx, r: &mut Res, t: &TransportSlice, inc: i64) {
    match t {
        TransportSlice::Udp(u) => {
            let p = pay(ctx, "udp", u.payload(), "any", -1, -1, inc);
            r.layers.push(layer(ctx, "udp", u.header_slice(), f_udp(u), p.clone()));
            th(r, "udp", f_udp_h(&u.to_header()) == f_udp(u));
            r.pay = p;
        }
        TransportSlice::Tcp(t) => {
            let p = pay(ctx, "tcp", t.payload(), "any", -1, -1, inc);
            r.layers.push(layer(ctx, "tcp", t.header_slice(), f_tcp(t), p.clone()));
            th(r, "tcp", f_tcp_h(&t.to_header()) == f_tcp(t));
            r.pay = p;
        }
        TransportSlice::Icmpv4(t) => {
            let p = pay(ctx, "icmp4", t.payload(), "any", -1, -1, inc);
            let hl = t.header_len().min(t.slice().len());
            r.layers.push(layer(ctx, "icmp4", &t.slice()[..hl], f_icmp(t.type_u8(), t.code_u8(), t.checksum(), t.bytes5to8()), p.clone()));
            r.pay = p;
        }
        TransportSlice::Icmpv6(t) => {
            let p = pay(ctx, "icmp6", t.payload(), "any", -1, -1, inc);
            let hl = t.header_len().min(t.slice().len());
            r.layers.push(layer(ctx, "icmp6", &t.slice()[..hl], f_icmp(t.type_u8(), t.code_u8(), t.checksum(), t.bytes5to8()), p.clone()));
            r.pay = p;
        }
    }
}

pub fn ipv4_layers(ctx: &Ctx, r: &mut Res, h: &Ipv4HeaderSlice, exts: &Ipv4ExtensionsSlice, p: Value) {
    r.layers.push(layer(ctx, "ipv4", h.slice(), f_ipv4(h), p.clone()));
    th(r, "ipv4", f_ipv4_h(&h.to_header()) == f_ipv4(h));
    if let Some(a) = &exts.auth {
        r.layers.push(layer(ctx, "auth", a.slice(), f_auth(a), no_pay()));
        th(r, "auth", f_auth_h(&a.to_header()) == f_auth(&a));
    }
    r.pay = p;
}
pub fn ipv6_layers(ctx: &Ctx, r: &mut Res, h: &Ipv6HeaderSlice, exts: &Ipv6ExtensionsSlice, p: Value) {
    r.layers.push(layer(ctx, "ipv6", h.slice(), f_ipv6(h), p.clone()));
    th(r, "ipv6", f_ipv6_h(&h.to_header()) == f_ipv6(h));
    if !exts.is_empty() {
        r.layers.push(layer(ctx, "exts", exts.slice(), f_exts(ctx, exts), no_pay()));
    }
    r.pay = p;
}

pub fn sliced(ctx: &Ctx, p: &SlicedPacket) -> Res {
    let mut r = Res::new();
    if let Some(l) = &p.link {
        link_layer(ctx, &mut r, l, false);
    }
    for x in &p.link_exts {
        match x {
            LinkExtSlice::Vlan(v) => {
                let q = ether_pay(ctx, &v.payload());
                r.layers.push(layer(ctx, "vlan", &v.slice()[..4.min(v.slice().len())], f_vlan(v), q.clone()));
                th(&mut r, "vlan", f_vlan_h(&v.to_header()) == f_vlan(v));
                r.pay = q;
            }
            LinkExtSlice::Macsec(m) => {
                let q = match &m.payload {
                    MacsecPayloadSlice::Unmodified(e) => ether_pay(ctx, e),
                    MacsecPayloadSlice::Modified(s) => pay(ctx, "macsecmod", s, "any", -1, -1, -1),
                };
                r.layers.push(layer(ctx, "macsec", m.header.slice(), f_macsec(&m.header), q.clone()));
                th(&mut r, "macsec", f_macsec_h(&m.header.to_header()) == f_macsec(&m.header));
                r.pay = q;
            }
        }
    }
    match &p.net {
        Some(NetSlice::Ipv4(i)) => ipv4_layers(ctx, &mut r, &i.header(), &i.extensions(), ip_pay(ctx, i.payload())),
        Some(NetSlice::Ipv6(i)) => ipv6_layers(ctx, &mut r, &i.header(), i.extensions(), ip_pay(ctx, i.payload())),
        Some(NetSlice::Arp(a)) => {
            r.layers.push(layer(ctx, "arp", a.slice(), f_arp(a), no_pay()));
            th(&mut r, "arp", f_arp_h(&a.to_packet()) == f_arp(a));
            r.pay = no_pay();
        }
        None => {}
    }
    if let Some(t) = &p.transport {
        transport_layer(ctx, &mut r, t, -1);
    }
    let (ids, vl) = vlan_conv(&p.vlan_ids(), vlan_slice_ids(&p.vlan()));
    r.conv = json!({"has": 1, "vlan_ids": ids, "vlan": vl,
                    "epay": p.ether_payload().map(|e| ether_pay(ctx, &e)).unwrap_or_else(no_pay),
                    "ipay": p.ip_payload().map(|e| ip_pay(ctx, e)).unwrap_or_else(no_pay),
                    "pet": p.payload_ether_type().map(|e| e.0 as i64).unwrap_or(-1), "frag": b2i(p.is_ip_payload_fragmented())});
    r
}

pub fn lax_sliced(ctx: &Ctx, p: &LaxSlicedPacket) -> Res {
    let mut r = Res::new();
    if let Some(l) = &p.link {
        link_layer(ctx, &mut r, l, true);
    }
    for x in &p.link_exts {
        match x {
            LaxLinkExtSlice::Vlan(v) => {
                let mut q = ether_pay(ctx, &v.payload());
                q["inc"] = json!(0);
                r.layers.push(layer(ctx, "vlan", &v.slice()[..4.min(v.slice().len())], f_vlan(v), q.clone()));
                th(&mut r, "vlan", f_vlan_h(&v.to_header()) == f_vlan(v));
                r.pay = q;
            }
            LaxLinkExtSlice::Macsec(m) => {
                let q = match &m.payload {
                    LaxMacsecPayloadSlice::Unmodified(e) => lax_ether_pay(ctx, e),
                    LaxMacsecPayloadSlice::Modified { incomplete, payload } => pay(ctx, "macsecmod", payload, "any", -1, -1, b2i(*incomplete)),
                };
                r.layers.push(layer(ctx, "macsec", m.header.slice(), f_macsec(&m.header), q.clone()));
                th(&mut r, "macsec", f_macsec_h(&m.header.to_header()) == f_macsec(&m.header));
                r.pay = q;
            }
        }
    }
    let mut inc = 0;
    match &p.net {
        Some(LaxNetSlice::Ipv4(i)) => {
            inc = b2i(i.payload().incomplete);
            ipv4_layers(ctx, &mut r, &i.header(), &i.extensions(), lax_ip_pay(ctx, i.payload()))
        }
        Some(LaxNetSlice::Ipv6(i)) => {
            inc = b2i(i.payload().incomplete);
            ipv6_layers(ctx, &mut r, &i.header(), i.extensions(), lax_ip_pay(ctx, i.payload()))
        }
        Some(LaxNetSlice::Arp(a)) => {
            r.layers.push(layer(ctx, "arp", a.slice(), f_arp(a), no_pay()));
            th(&mut r, "arp", f_arp_h(&a.to_packet()) == f_arp(a));
            r.pay = no_pay();
        }
        None => {}
    }
    if let Some(t) = &p.transport {
        transport_layer(ctx, &mut r, t, inc);
    }
    if let Some((e, l)) = &p.stop_err {
        r.err = e.errp().with_stop(layer_s(*l));
    }
    let (ids, vl) = vlan_conv(&p.vlan_ids(), vlan_slice_ids(&p.vlan()));
    r.conv = json!({"has": 1, "vlan_ids": ids, "vlan": vl,
                    "epay": p.ether_payload().map(|e| lax_ether_pay(ctx, &e)).unwrap_or_else(no_pay),
                    "ipay": p.ip_payload().map(|e| lax_ip_pay(ctx, e)).unwrap_or_else(no_pay), "pet": -2, "frag": -2});
    r
}

// ---------------------------------------------------------------------------
// struct family

pub fn link_hdr_layer(r: &mut Res, l: &LinkHeader) {
    match l {
        LinkHeader::Ethernet2(e) => r.layers.push(hlayer("eth", e.header_len(), f_eth_h(e))),
        LinkHeader::LinuxSll(s) => r.layers.push(hlayer("sll", s.header_len(), f_sll_h(s))),
    }
}
pub fn link_ext_hdr_layer(r: &mut Res, l: &LinkExtHeader) {
    match l {
        LinkExtHeader::Vlan(v) => r.layers.push(hlayer("vlan", v.header_len(), f_vlan_h(v))),
        LinkExtHeader::Macsec(m) => r.layers.push(hlayer("macsec", m.header_len(), f_macsec_h(m))),
    }
}
pub fn net_hdr_layers(r: &mut Res, n: &NetHeaders) {
    match n {
        NetHeaders::Ipv4(h, e) => {
            r.layers.push(hlayer("ipv4", h.header_len(), f_ipv4_h(h)));
            if let Some(a) = &e.auth {
                r.layers.push(hlayer("auth", a.header_len(), f_auth_h(a)));
            }
        }
        NetHeaders::Ipv6(h, e) => {
            r.layers.push(hlayer("ipv6", h.header_len(), f_ipv6_h(h)));
            let (f, total) = f_exts_h(e);
            if !f.is_empty() {
                r.layers.push(hlayer("exts", total, f));
            }
        }
        NetHeaders::Arp(a) => r.layers.push(hlayer("arp", a.packet_len(), f_arp_h(a))),
    }
}
pub fn ip_hdr_layers(r: &mut Res, n: &IpHeaders) {
    match n {
        IpHeaders::Ipv4(h, e) => {
            r.layers.push(hlayer("ipv4", h.header_len(), f_ipv4_h(h)));
            if let Some(a) = &e.auth {
                r.layers.push(hlayer("auth", a.header_len(), f_auth_h(a)));
            }
        }
        IpHeaders::Ipv6(h, e) => {
            r.layers.push(hlayer("ipv6", h.header_len(), f_ipv6_h(h)));
            let (f, total) = f_exts_h(e);
            if !f.is_empty() {
                r.layers.push(hlayer("exts", total, f));
            }
        }
    }
}
pub fn transport_hdr_layer(r: &mut Res, t: &TransportHeader) {
    match t {
        TransportHeader::Udp(u) => r.layers.push(hlayer("udp", u.header_len(), f_udp_h(u))),
        TransportHeader::Tcp(t) => r.layers.push(hlayer("tcp", t.header_len() as usize, f_tcp_h(t))),
        TransportHeader::Icmpv4(i) => {
            let b = i.to_bytes();
            r.layers.push(hlayer("icmp4", i.header_len(), vec![b[0] as i64, b[1] as i64, i.checksum as i64]))
        }
        TransportHeader::Icmpv6(i) => {
            let b = i.to_bytes();
            r.layers.push(hlayer("icmp6", i.header_len(), vec![b[0] as i64, b[1] as i64, i.checksum as i64]))
        }
    }
}

pub fn payload_slice(ctx: &Ctx, p: &PayloadSlice) -> Value {
    match p {
        PayloadSlice::Empty => no_pay(),
        PayloadSlice::Ether(e) => ether_pay(ctx, e),
        PayloadSlice::MacsecMod(s) => pay(ctx, "macsecmod", s, "any", -1, -1, -1),
        PayloadSlice::Ip(i) => ip_pay(ctx, i),
        PayloadSlice::Udp(s) => pay(ctx, "udp", s, "any", -1, -1, -1),
        PayloadSlice::Tcp(s) => pay(ctx, "tcp", s, "any", -1, -1, -1),
        PayloadSlice::Icmpv4(s) => pay(ctx, "icmp4", s, "any", -1, -1, -1),
        PayloadSlice::Icmpv6(s) => pay(ctx, "icmp6", s, "any", -1, -1, -1),
    }
}
pub fn lax_payload_slice(ctx: &Ctx, p: &LaxPayloadSlice) -> Value {
    match p {
        LaxPayloadSlice::Empty => no_pay(),
        LaxPayloadSlice::Ether(e) => lax_ether_pay(ctx, e),
        LaxPayloadSlice::MacsecModified { payload, incomplete } => pay(ctx, "macsecmod", payload, "any", -1, -1, b2i(*incomplete)),
        LaxPayloadSlice::Ip(i) => lax_ip_pay(ctx, i),
        LaxPayloadSlice::Udp { payload, incomplete } => pay(ctx, "udp", payload, "any", -1, -1, b2i(*incomplete)),
        LaxPayloadSlice::Tcp { payload, incomplete } => pay(ctx, "tcp", payload, "any", -1, -1, b2i(*incomplete)),
        LaxPayloadSlice::Icmpv4 { payload, incomplete } => pay(ctx, "icmp4", payload, "any", -1, -1, b2i(*incomplete)),
        LaxPayloadSlice::Icmpv6 { payload, incomplete } => pay(ctx, "icmp6", payload, "any", -1, -1, b2i(*incomplete)),
        LaxPayloadSlice::LinuxSll(p) => sll_pay(ctx, p),
    }
}

pub fn headers(ctx: &Ctx, p: &PacketHeaders) -> Res {
    let mut r = Res::new();
    if let Some(l) = &p.link {
        link_hdr_layer(&mut r, l);
    }
    for x in &p.link_exts {
        link_ext_hdr_layer(&mut r, x);
    }
    if let Some(n) = &p.net {
        net_hdr_layers(&mut r, n);
    }
    if let Some(t) = &p.transport {
        transport_hdr_layer(&mut r, t);
    }
    r.pay = payload_slice(ctx, &p.payload);
    let (ids, vl) = vlan_conv(&p.vlan_ids(), vlan_hdr_ids(&p.vlan()));
    r.conv = json!({"has": 2, "vlan_ids": ids, "vlan": vl, "epay": no_pay(), "ipay": no_pay(), "pet": -2, "frag": -2});
    r
}
pub fn lax_headers(ctx: &Ctx, p: &LaxPacketHeaders) -> Res {
    let mut r = Res::new();
    if let Some(l) = &p.link {
        link_hdr_layer(&mut r, l);
    }
    for x in &p.link_exts {
        link_ext_hdr_layer(&mut r, x);
    }
    if let Some(n) = &p.net {
        net_hdr_layers(&mut r, n);
    }
    if let Some(t) = &p.transport {
        transport_hdr_layer(&mut r, t);
    }
    r.pay = lax_payload_slice(ctx, &p.payload);
    if let Some((e, l)) = &p.stop_err {
        r.err = e.errp().with_stop(layer_s(*l));
    }
    let (ids, vl) = vlan_conv(&p.vlan_ids(), vlan_hdr_ids(&p.vlan()));
    r.conv = json!({"has": 2, "vlan_ids": ids, "vlan": vl, "epay": no_pay(), "ipay": no_pay(), "pet": -2, "frag": -2});
    r
}
