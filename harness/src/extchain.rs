//! Driver for the extension-header bookkeeping (spec/ExtChain.tla): builds the real Ipv6Extensions /
//! Ipv4Extensions / IpHeaders value of a configuration and runs every walker on it.
use etherparse::*;
use serde_json::{json, Value};
use std::panic::{catch_unwind, AssertUnwindSafe};

pub const LEN_HBH: usize = 8;
pub const LEN_DST: usize = 16;
pub const LEN_ROUTE: usize = 8;
pub const LEN_FRAG: usize = 8;
pub const LEN_AUTH: usize = 16;
pub const LEN_FDST: usize = 24;

fn raw(next: i64, len: usize, fill: u8) -> Ipv6RawExtHeader {
    // a header with a history: it held a longer payload before (whatever is left of it behind the used part is not part of the value)
    let mut h = Ipv6RawExtHeader::new_raw(IpNumber(next as u8), &[0xEE; 62]).unwrap();
    h.set_payload(&vec![fill; len - 2]).unwrap();
    h
}

pub fn build(c: &Value) -> Ipv6Extensions {
    let g = |k: &str| c[k].as_i64().unwrap();
    let mut e = Ipv6Extensions::default();
    if g("hbh") >= 0 {
        e.hop_by_hop_options = Some(raw(g("hbh"), LEN_HBH, 1));
    }
    if g("dst") >= 0 {
        e.destination_options = Some(raw(g("dst"), LEN_DST, 2));
    }
    if g("route") >= 0 {
        e.routing = Some(Ipv6RoutingExtensions {
            routing: raw(g("route"), LEN_ROUTE, 3),
            final_destination_options: if g("fdst") >= 0 { Some(raw(g("fdst"), LEN_FDST, 6)) } else { None },
        });
    }
    if g("frag") >= 0 {
        e.fragment = Some(Ipv6FragmentHeader::new(IpNumber(g("frag") as u8), IpFragOffset::try_new(0).unwrap(), false, 0x01020304));
    }
    if g("auth") >= 0 {
        e.auth = Some(IpAuthHeader::new(IpNumber(g("auth") as u8), 7, 9, &[5, 5, 5, 5]).unwrap());
    }
    e
}

pub fn links(e: &Ipv6Extensions) -> Value {
    let n = |x: Option<IpNumber>| x.map(|v| v.0 as i64).unwrap_or(-1);
    json!({
        "hbh": n(e.hop_by_hop_options.as_ref().map(|h| h.next_header)),
        "dst": n(e.destination_options.as_ref().map(|h| h.next_header)),
        "route": n(e.routing.as_ref().map(|h| h.routing.next_header)),
        "frag": n(e.fragment.as_ref().map(|h| h.next_header)),
        "auth": n(e.auth.as_ref().map(|h| h.next_header)),
        "fdst": n(e.routing.as_ref().and_then(|r| r.final_destination_options.as_ref().map(|h| h.next_header))),
    })
}
/// header lengths per slot (-1 absent): lets the spec check that decoding kept each header in its slot
pub fn lens(e: &Ipv6Extensions) -> Value {
    let n = |x: Option<usize>| x.map(|v| v as i64).unwrap_or(-1);
    json!({
        "hbh": n(e.hop_by_hop_options.as_ref().map(|h| h.header_len())),
        "dst": n(e.destination_options.as_ref().map(|h| h.header_len())),
        "route": n(e.routing.as_ref().map(|h| h.routing.header_len())),
        "frag": n(e.fragment.as_ref().map(|h| h.header_len())),
        "auth": n(e.auth.as_ref().map(|h| h.header_len())),
        "fdst": n(e.routing.as_ref().and_then(|r| r.final_destination_options.as_ref().map(|h| h.header_len()))),
    })
}

fn walk_err6(e: &err::ipv6_exts::ExtsWalkError) -> Value {
    let _ = format!("{} {:?}", e, e);
    match e {
        err::ipv6_exts::ExtsWalkError::HopByHopNotAtStart => json!({"k": "err", "e": "HopByHopNotAtStart", "x": -1, "n": -1}),
        err::ipv6_exts::ExtsWalkError::ExtNotReferenced { missing_ext } => json!({"k": "err", "e": "ExtNotReferenced", "x": missing_ext.0, "n": -1}),
    }
}
fn panic_v() -> Value {
    json!({"k": "panic", "e": "", "x": -1, "n": -1})
}

/// independent wire walk of written extension bytes: [[number, next, len], ...]
pub fn wire_of(first: u8, b: &[u8]) -> Vec<Vec<i64>> {
    let mut out = vec![];
    let mut nh = first;
    let mut p = 0usize;
    while p + 2 <= b.len() {
        let l = match nh {
            0 | 43 | 60 => (b[p + 1] as usize + 1) * 8,
            44 => 8,
            51 => (b[p + 1] as usize + 2) * 4,
            _ => break,
        };
        out.push(vec![nh as i64, b[p] as i64, l as i64]);
        nh = b[p];
        p += l;
        if out.len() > 16 {
            break;
        }
    }
    if p != b.len() {
        out.push(vec![-1, -1, (b.len() as i64) - (p as i64)]);
    }
    out
}

fn write_res(e: &Ipv6Extensions, first: u8) -> Value {
    let r = catch_unwind(AssertUnwindSafe(|| {
        let mut buf: Vec<u8> = vec![];
        match e.write(&mut buf, IpNumber(first)) {
            Ok(()) => json!({"k": "ok", "e": "", "x": -1, "n": buf.len(), "wire": wire_of(first, &buf), "bytes": buf}),
            Err(err::ipv6_exts::HeaderWriteError::Content(c)) => {
                let mut v = walk_err6(&c);
                v["n"] = json!(buf.len());
                v["wire"] = json!([]);
                v["bytes"] = json!([]);
                v
            }
            Err(err::ipv6_exts::HeaderWriteError::Io(_)) => json!({"k": "io", "e": "", "x": -1, "n": -1, "wire": [], "bytes": []}),
        }
    }));
    r.unwrap_or_else(|_| {
        let mut v = panic_v();
        v["wire"] = json!([]);
        v["bytes"] = json!([]);
        v
    })
}
fn next_res(e: &Ipv6Extensions, first: u8) -> Value {
    catch_unwind(AssertUnwindSafe(|| match e.next_header(IpNumber(first)) {
        Ok(n) => json!({"k": "ok", "e": "", "x": -1, "n": n.0}),
        Err(x) => walk_err6(&x),
    }))
    .unwrap_or_else(|_| panic_v())
}

pub fn run_config(id: &str, c: &Value) -> Value {
    let first = c["first"].as_i64().unwrap() as u8;
    let e = build(c);
    let nh = next_res(&e, first);
    let wr = write_res(&e, first);
    let hl = e.header_len();
    // decode what was written (plus 4 payload bytes)
    let dec = if wr["k"] == "ok" {
        let mut b: Vec<u8> = wr["bytes"].as_array().unwrap().iter().map(|x| x.as_u64().unwrap() as u8).collect();
        b.extend([0xde, 0xad, 0xbe, 0xef]);
        catch_unwind(AssertUnwindSafe(|| match Ipv6Extensions::from_slice(IpNumber(first), &b) {
            Ok((d, n, rest)) => {
                // the other decoders of the same bytes: io::Read based, length limited, lax (struct and slice family)
                let mut cur = std::io::Cursor::new(&b[..]);
                let rd = Ipv6Extensions::read(&mut cur, IpNumber(first)).map(|(x, m)| x == d && m == n && cur.position() as usize == b.len() - rest.len()).unwrap_or(false);
                let mut lr = io::LimitedReader::new(std::io::Cursor::new(&b[..]), b.len() - rest.len(), LenSource::Slice, 0, err::Layer::Ipv6Header);
                let rl = Ipv6Extensions::read_limited(&mut lr, IpNumber(first)).map(|(x, m)| x == d && m == n).unwrap_or(false);
                let lx = Ipv6Extensions::from_slice_lax(IpNumber(first), &b);
                let lax = lx.0 == d && lx.1 == n && lx.2.len() == rest.len() && lx.3.is_none();
                let sl = Ipv6ExtensionsSlice::from_slice(IpNumber(first), &b).map(|(x, m, r)| m == n && r.len() == rest.len() && x.slice().len() == b.len() - rest.len()).unwrap_or(false);
                // ... and the decoders of the complete IP packet (IPv6 header in front): IpHeaders::from_slice / read, IpSlice::to_header,
                // the header view's try_to_header, the lax variants
                let mut pkt = Ipv6Header { traffic_class: 0, flow_label: Ipv6FlowLabel::ZERO, payload_length: b.len() as u16, next_header: IpNumber(first), hop_limit: 4,
                                           source: [1; 16], destination: [2; 16] }.to_bytes().to_vec();
                let h6 = Ipv6Header::from_slice(&pkt).unwrap().0;
                pkt.extend(&b);
                let want = IpHeaders::Ipv6(h6, d.clone());
                let plen = rest.len();
                let ihs = IpHeaders::from_slice(&pkt).map(|(x, p)| x == want && p.ip_number == n && p.payload.len() == plen).unwrap_or(false);
                let mut pc = std::io::Cursor::new(&pkt[..]);
                let ihr = IpHeaders::read(&mut pc).map(|(x, m)| x == want && m == n && pc.position() as usize == pkt.len() - plen).unwrap_or(false);
                let ips = IpSlice::from_slice(&pkt).map(|x| x.to_header() == want && x.header().try_to_header().map(|y| y == want).unwrap_or(false)
                                                        && x.payload().ip_number == n && x.payload().payload.len() == plen).unwrap_or(false);
                let ihl = IpHeaders::from_slice_lax(&pkt).map(|(x, p, stop)| x == want && p.ip_number == n && p.payload.len() == plen && stop.is_none()).unwrap_or(false);
                let ipl = LaxIpSlice::from_slice(&pkt).map(|(x, stop)| x.payload().ip_number == n && x.payload().payload.len() == plen && stop.is_none()).unwrap_or(false);
                let f = |x: bool| if x { 1 } else { 0 };
                json!({"k": "ok", "links": links(&d), "lens": lens(&d), "final": n.0, "rest": rest.len(), "same": if d == e { 1 } else { 0 },
                       "doors": [f(rd), f(rl), f(lax), f(sl), f(ihs), f(ihr), f(ips), f(ihl), f(ipl)]})
            }
            Err(x) => json!({"k": "err", "links": links(&Ipv6Extensions::default()), "lens": lens(&Ipv6Extensions::default()), "final": -1, "rest": -1, "same": 0, "doors": [], "msg": format!("{:?}", x)}),
        }))
        .unwrap_or_else(|_| json!({"k": "panic", "links": links(&Ipv6Extensions::default()), "lens": lens(&Ipv6Extensions::default()), "final": -1, "rest": -1, "same": 0, "doors": []}))
    } else {
        json!({"k": "skip", "links": links(&Ipv6Extensions::default()), "lens": lens(&Ipv6Extensions::default()), "final": -1, "rest": -1, "same": 0, "doors": []})
    };
    // set_next_headers(17) then walk + write
    let mut s = e.clone();
    let sfirst = s.set_next_headers(IpNumber(17));
    let set = json!({"first": sfirst.0, "links": links(&s), "next_header": next_res(&s, sfirst.0), "write": write_res(&s, sfirst.0)});
    // the same through IpHeaders (IPv6 header in front)
    let hdr = Ipv6Header { traffic_class: 0, flow_label: Ipv6FlowLabel::ZERO, payload_length: 0, next_header: IpNumber(first), hop_limit: 4, source: [1; 16], destination: [2; 16] };
    let iph = IpHeaders::Ipv6(hdr.clone(), e.clone());
    let iph_next = catch_unwind(AssertUnwindSafe(|| match iph.next_header() {
        Ok(n) => json!({"k": "ok", "e": "", "x": -1, "n": n.0}),
        Err(err::ip_exts::ExtsWalkError::Ipv6Exts(x)) => walk_err6(&x),
        Err(err::ip_exts::ExtsWalkError::Ipv4Exts(_)) => json!({"k": "err", "e": "Ipv4Exts", "x": -1, "n": -1}),
    }))
    .unwrap_or_else(|_| panic_v());
    let iph_write = catch_unwind(AssertUnwindSafe(|| {
        let mut buf: Vec<u8> = vec![];
        match iph.write(&mut buf) {
            Ok(()) => json!({"k": "ok", "e": "", "x": -1, "n": buf.len(), "wire": wire_of(first, &buf[40.min(buf.len())..])}),
            Err(err::ip::HeadersWriteError::Ipv6Exts(c)) => {
                let mut v = walk_err6(&c);
                v["wire"] = json!([]);
                v
            }
            Err(_) => json!({"k": "io", "e": "", "x": -1, "n": -1, "wire": []}),
        }
    }))
    .unwrap_or_else(|_| {
        let mut v = panic_v();
        v["wire"] = json!([]);
        v
    });
    let mut iph2 = IpHeaders::Ipv6(hdr.clone(), e.clone());
    let et6 = iph2.set_next_headers(IpNumber(17));
    let iph2_first = match &iph2 {
        IpHeaders::Ipv6(h, _) => h.next_header.0 as i64,
        _ => -1,
    };
    let iph2_links = match &iph2 { IpHeaders::Ipv6(_, x) => links(x), _ => links(&Ipv6Extensions::default()) };
    let mut nh6 = NetHeaders::Ipv6(hdr.clone(), e.clone());
    let net_et6 = nh6.try_set_next_headers(IpNumber(17)).map(|x| x.0 as i64).unwrap_or(-1);
    let (nh6_first, nh6_links) = match &nh6 { NetHeaders::Ipv6(h, x) => (h.next_header.0 as i64, links(x)), _ => (-1, links(&Ipv6Extensions::default())) };
    // IPv4 analogue: only the authentication header slot
    let g = |k: &str| c[k].as_i64().unwrap();
    let v4e = Ipv4Extensions { auth: if g("auth") >= 0 { Some(IpAuthHeader::new(IpNumber(g("auth") as u8), 7, 9, &[5, 5, 5, 5]).unwrap()) } else { None } };
    let v4_next = match v4e.next_header(IpNumber(first)) {
        Ok(n) => json!({"k": "ok", "e": "", "x": -1, "n": n.0}),
        Err(err::ipv4_exts::ExtsWalkError::ExtNotReferenced { missing_ext }) => json!({"k": "err", "e": "ExtNotReferenced", "x": missing_ext.0, "n": -1}),
    };
    let v4_write = catch_unwind(AssertUnwindSafe(|| {
        let mut buf: Vec<u8> = vec![];
        match v4e.write(&mut buf, IpNumber(first)) {
            Ok(()) => json!({"k": "ok", "e": "", "x": -1, "n": buf.len()}),
            Err(err::ipv4_exts::HeaderWriteError::Content(err::ipv4_exts::ExtsWalkError::ExtNotReferenced { missing_ext })) => json!({"k": "err", "e": "ExtNotReferenced", "x": missing_ext.0, "n": -1}),
            Err(_) => json!({"k": "io", "e": "", "x": -1, "n": -1}),
        }
    }))
    .unwrap_or_else(|_| panic_v());
    let mut v4h = Ipv4Header::new(0, 4, IpNumber(first), [1, 1, 1, 1], [2, 2, 2, 2]).unwrap();
    v4h.protocol = IpNumber(first);
    let iph4c = IpHeaders::Ipv4(v4h.clone(), v4e.clone());
    let iph4_next = match iph4c.next_header() {
        Ok(n) => json!({"k": "ok", "e": "", "x": -1, "n": n.0}),
        Err(err::ip_exts::ExtsWalkError::Ipv4Exts(err::ipv4_exts::ExtsWalkError::ExtNotReferenced { missing_ext })) => json!({"k": "err", "e": "ExtNotReferenced", "x": missing_ext.0, "n": -1}),
        Err(_) => json!({"k": "err", "e": "Ipv6Exts", "x": -1, "n": -1}),
    };
    let iph4_write = catch_unwind(AssertUnwindSafe(|| {
        let mut buf: Vec<u8> = vec![];
        match iph4c.write(&mut buf) {
            Ok(()) => json!({"k": "ok", "e": "", "x": -1, "n": buf.len()}),
            Err(err::ip::HeadersWriteError::Ipv4Exts(err::ipv4_exts::ExtsWalkError::ExtNotReferenced { missing_ext })) => json!({"k": "err", "e": "ExtNotReferenced", "x": missing_ext.0, "n": -1}),
            Err(_) => json!({"k": "io", "e": "", "x": -1, "n": -1}),
        }
    }))
    .unwrap_or_else(|_| panic_v());
    let mut iph4 = IpHeaders::Ipv4(v4h.clone(), v4e.clone());
    let et4 = iph4.set_next_headers(IpNumber(17));
    let v4_first = match &iph4 {
        IpHeaders::Ipv4(h, _) => h.protocol.0 as i64,
        _ => -1,
    };
    let mut nh4 = NetHeaders::Ipv4(v4h, v4e.clone());
    let net_et4 = nh4.try_set_next_headers(IpNumber(17)).map(|x| x.0 as i64).unwrap_or(-1);
    json!({"ev": "walk", "id": id, "cfg": {"hbh": g("hbh"), "dst": g("dst"), "route": g("route"), "frag": g("frag"), "auth": g("auth"), "fdst": g("fdst")},
           "first": first, "next_header": nh, "write": wr, "header_len": hl, "decode": dec, "set": set,
           "iph_next": iph_next, "iph_write": iph_write, "iph_len": iph.header_len(),
           "iph_set": {"et": et6.0, "first": iph2_first, "net_et": net_et6, "links": iph2_links, "net_first": nh6_first, "net_links": nh6_links},
           "v4": {"next": v4_next, "write": v4_write, "iph_next": iph4_next, "iph_write": iph4_write, "iph_len": iph4c.header_len(), "len": v4e.header_len(), "set_et": et4.0, "set_first": v4_first, "net_et": net_et4}})
}
