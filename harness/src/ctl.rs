//! Driver for the typed control message views (spec/Ctl.tla, C17).
use crate::proj::Ctx;
use etherparse::*;
use serde_json::{json, Value};
use std::panic::{catch_unwind, AssertUnwindSafe};

// variant names by explicit match: independent of how the crate renders its values
fn n_icmp4(t: &Icmpv4Type) -> &'static str {
    use Icmpv4Type::*;
    match t {
        Unknown { .. } => "Unknown", EchoReply(_) => "EchoReply", DestinationUnreachable(_) => "DestinationUnreachable", Redirect(_) => "Redirect", EchoRequest(_) => "EchoRequest",
        TimeExceeded(_) => "TimeExceeded", ParameterProblem(_) => "ParameterProblem", TimestampRequest(_) => "TimestampRequest", TimestampReply(_) => "TimestampReply",
    }
}
fn n_icmp6(t: &Icmpv6Type) -> &'static str {
    use Icmpv6Type::*;
    match t {
        Unknown { .. } => "Unknown", DestinationUnreachable(_) => "DestinationUnreachable", PacketTooBig { .. } => "PacketTooBig", TimeExceeded(_) => "TimeExceeded",
        ParameterProblem(_) => "ParameterProblem", EchoRequest(_) => "EchoRequest", EchoReply(_) => "EchoReply", RouterSolicitation => "RouterSolicitation",
        RouterAdvertisement(_) => "RouterAdvertisement", NeighborSolicitation => "NeighborSolicitation", NeighborAdvertisement(_) => "NeighborAdvertisement", Redirect => "Redirect",
    }
}
fn n_pay6(p: &icmpv6::Icmpv6PayloadSlice) -> &'static str {
    use icmpv6::Icmpv6PayloadSlice::*;
    match p {
        DestinationUnreachable(_) => "DestinationUnreachable", PacketTooBig(_) => "PacketTooBig", TimeExceeded(_) => "TimeExceeded", ParameterProblem(_) => "ParameterProblem",
        EchoRequest(_) => "EchoRequest", EchoReply(_) => "EchoReply", RouterSolicitation(_) => "RouterSolicitation", RouterAdvertisement(_) => "RouterAdvertisement",
        NeighborSolicitation(_) => "NeighborSolicitation", NeighborAdvertisement(_) => "NeighborAdvertisement", Redirect(_) => "Redirect", Raw(_) => "Raw", _ => "Other",
    }
}
fn n_ndp(o: &icmpv6::NdpOptionSlice) -> &'static str {
    use icmpv6::NdpOptionSlice::*;
    match o {
        SourceLinkLayerAddress(_) => "SourceLinkLayerAddress", TargetLinkLayerAddress(_) => "TargetLinkLayerAddress", PrefixInformation(_) => "PrefixInformation",
        RedirectedHeader(_) => "RedirectedHeader", Mtu(_) => "Mtu", Unknown(_) => "Unknown", _ => "Other",
    }
}
fn n_igmp(t: &IgmpType) -> &'static str {
    use IgmpType::*;
    match t {
        MembershipQuery(_) => "MembershipQuery", MembershipQueryWithSources(_) => "MembershipQueryWithSources", MembershipReportV1(_) => "MembershipReportV1",
        MembershipReportV2(_) => "MembershipReportV2", MembershipReportV3(_) => "MembershipReportV3", LeaveGroup(_) => "LeaveGroup", Unknown(_) => "Unknown",
    }
}
fn n_arpview(e: &err::arp::ArpEthIpv4FromError) -> &'static str {
    use err::arp::ArpEthIpv4FromError::*;
    match e {
        NonMatchingHwType(_) => "NonMatchingHwType", NonMatchingProtocolType(_) => "NonMatchingProtocolType", NonMatchingHwAddrSize(_) => "NonMatchingHwAddrSize",
        NonMatchingProtoAddrSize(_) => "NonMatchingProtoAddrSize",
    }
}
fn rg(c: &Ctx, s: &[u8]) -> Vec<i64> {
    let (o, l) = c.rg(s);
    vec![o, l]
}

/// typed view of one option: option type followed by the values of every typed accessor (big endian bytes for integers),
/// and for prefix information the re-encoding of the decoded struct
fn ndp_typed(o: &icmpv6::NdpOptionSlice) -> (Vec<i64>, Vec<u8>) {
    use icmpv6::NdpOptionSlice::*;
    let mut f: Vec<i64> = vec![u8::from(o.option_type()) as i64];
    let mut re: Vec<u8> = vec![];
    match o {
        SourceLinkLayerAddress(x) => {
            assert!(x.option_type() == o.option_type());
            f.extend(x.link_layer_address().iter().map(|v| *v as i64));
        }
        TargetLinkLayerAddress(x) => {
            assert!(x.option_type() == o.option_type());
            f.extend(x.link_layer_address().iter().map(|v| *v as i64));
        }
        PrefixInformation(x) => {
            f.push(x.prefix_length() as i64);
            f.push(x.on_link() as i64);
            f.push(x.autonomous_address_configuration() as i64);
            f.extend(x.valid_lifetime().to_be_bytes().iter().map(|v| *v as i64));
            f.extend(x.preferred_lifetime().to_be_bytes().iter().map(|v| *v as i64));
            f.extend(x.prefix().iter().map(|v| *v as i64));
            let pi = x.prefix_information();
            // the struct decoded from the same bytes must be the same value
            let same = icmpv6::PrefixInformation::from_slice(x.as_bytes()).map(|y| y == pi).unwrap_or(false)
                && icmpv6::PrefixInformation::from_bytes(*x.as_bytes()).map(|y| y == pi).unwrap_or(false);
            re = if same { pi.to_bytes().to_vec() } else { vec![0xEE] };
        }
        RedirectedHeader(x) => f.extend(x.redirected_packet().iter().map(|v| *v as i64)),
        Mtu(x) => f.extend(x.mtu().to_be_bytes().iter().map(|v| *v as i64)),
        Unknown(x) => f.extend(x.data().iter().map(|v| *v as i64)),
        _ => f.push(-99),
    }
    (f, re)
}

pub fn ndp_steps(c: &Ctx, mut it: icmpv6::NdpOptionsIterator) -> Vec<Value> {
    let mut steps = vec![];
    let mut nones = 0;
    let mut budget = 80;
    while nones < 3 && budget > 0 {
        budget -= 1;
        let r = it.next();
        let v = match &r {
            None => {
                nones += 1;
                json!({"k": "none", "name": "", "t": -1, "rg": [-1, -1], "bytes": [], "tf": [], "re": []})
            }
            Some(Ok(o)) => {
                let (tf, re) = ndp_typed(o);
                json!({"k": "item", "name": n_ndp(o), "t": o.as_bytes()[0], "rg": rg(c, o.as_bytes()), "bytes": o.as_bytes(), "tf": tf, "re": re})
            }
            Some(Err(e)) => {
                let _ = format!("{} {:?}", e, e);
                use icmpv6::NdpOptionReadError::*;
                let (name, t): (&str, i64) = match e {
                    UnexpectedEndOfSlice { option_id, .. } => ("UnexpectedEndOfSlice", option_id.0 as i64),
                    ZeroLength { option_id } => ("ZeroLength", option_id.0 as i64),
                    UnexpectedSize { option_id, .. } => ("UnexpectedSize", option_id.0 as i64),
                    UnexpectedHeader { actual_option_id, .. } => ("UnexpectedHeader", actual_option_id.0 as i64),
                    _ => ("Other", -1),
                };
                json!({"k": "err", "name": name, "t": t, "rg": [-1, -1], "bytes": [], "tf": [], "re": []})
            }
        };
        steps.push(json!({"r": v, "rest": it.rest().len()}));
    }
    if budget == 0 {
        steps.push(json!({"r": {"k": "unbounded", "name": "", "t": -1, "rg": [-1, -1], "bytes": [], "tf": [], "re": []}, "rest": -1}));
    }
    steps
}

fn none_pv() -> Value {
    json!({"slice": [-1, -1], "fixed": [], "tp": [], "tp_len": -1, "tp_opts": [-1, -1], "inv": [-1, -1], "lax": -1, "alt": -1})
}
/// typed view of the payload behind the 8 byte ICMPv6 header
fn payload_view(c: &Ctx, t: &Icmpv6Type, payload: &[u8], p: &icmpv6::Icmpv6PayloadSlice) -> Value {
    use icmpv6::Icmpv6PayloadSlice::*;
    let b = |v: &[u8]| -> Vec<i64> { v.iter().map(|x| *x as i64).collect() };
    let lax = |x: Result<(LaxIpSlice, Option<(err::ipv6_exts::HeaderSliceError, err::Layer)>), err::ip::LaxHeaderSliceError>, inv: &[u8]| -> i64 {
        if format!("{:?}", x) == format!("{:?}", LaxIpSlice::from_slice(inv)) { 1 } else { 0 }
    };
    let mut fixed: Vec<i64> = vec![];
    let mut inv: Vec<i64> = vec![-1, -1];
    let mut laxs: i64 = -1;
    match p {
        DestinationUnreachable(x) => { assert!(x.slice() == p.slice()); inv = rg(c, x.invoking_packet()); laxs = lax(x.as_lax_ip_slice(), x.invoking_packet()); }
        PacketTooBig(x) => { assert!(x.slice() == p.slice()); inv = rg(c, x.invoking_packet()); laxs = lax(x.as_lax_ip_slice(), x.invoking_packet()); }
        TimeExceeded(x) => { assert!(x.slice() == p.slice()); inv = rg(c, x.invoking_packet()); laxs = lax(x.as_lax_ip_slice(), x.invoking_packet()); }
        ParameterProblem(x) => { assert!(x.slice() == p.slice()); inv = rg(c, x.invoking_packet()); laxs = lax(x.as_lax_ip_slice(), x.invoking_packet()); }
        EchoRequest(x) => { assert!(x.slice() == p.slice()); inv = rg(c, x.data()); }
        EchoReply(x) => { assert!(x.slice() == p.slice()); inv = rg(c, x.data()); }
        RouterSolicitation(x) => { assert!(x.slice() == p.slice()); }
        RouterAdvertisement(x) => {
            assert!(x.slice() == p.slice());
            fixed.extend(b(&x.reachable_time().to_be_bytes()));
            fixed.extend(b(&x.retrans_timer().to_be_bytes()));
        }
        NeighborSolicitation(x) => { assert!(x.slice() == p.slice()); fixed.extend(b(&x.target_address().octets())); }
        NeighborAdvertisement(x) => { assert!(x.slice() == p.slice()); fixed.extend(b(&x.target_address().octets())); }
        Redirect(x) => {
            assert!(x.slice() == p.slice());
            fixed.extend(b(&x.target_address().octets()));
            fixed.extend(b(&x.destination_address().octets()));
        }
        Raw(_) => {}
        _ => {}
    }
    let (tp, tp_len, tp_opts) = match p.to_payload() {
        None => (vec![], -1i64, vec![-1, -1]),
        Some((pl, opts)) => {
            let mut w: Vec<u8> = vec![];
            pl.write(&mut w).unwrap();
            assert!(pl.is_empty() == (pl.len() == 0));
            (w, pl.len() as i64, rg(c, opts))
        }
    };
    // the same view through the message type
    let alt = t.payload_slice(payload).map(|q| q == *p).unwrap_or(false)
        && icmpv6::Icmpv6PayloadSlice::from_slice(t, payload).map(|q| q == *p).unwrap_or(false)
        && t.payload_from_slice(payload).map(|q| q == p.to_payload()).unwrap_or(false);
    json!({"slice": rg(c, p.slice()), "fixed": fixed, "tp": tp, "tp_len": tp_len, "tp_opts": tp_opts, "inv": inv, "lax": laxs, "alt": if alt { 1 } else { 0 }})
}

fn none_opts() -> Value {
    json!({"has": 0, "rg": [-1, -1], "steps": []})
}

pub fn run_case(id: &str, case: &Value) -> Value {
    let kind = case["kind"].as_str().unwrap().to_string();
    let b: Vec<u8> = case["bytes"].as_array().unwrap().iter().map(|x| x.as_u64().unwrap() as u8).collect();
    let r = catch_unwind(AssertUnwindSafe(|| {
        let c = Ctx::new(&b);
        match kind.as_str() {
            "icmp4" => match Icmpv4Slice::from_slice(&b) {
                Err(e) => json!({"ev": "icmp4", "id": id, "bytes": b, "ok": 0, "req": e.required_len, "len": e.len, "layer": crate::errp::layer_s(e.layer),
                                 "kind": "", "hlen": -1, "norm": [], "pay": [-1, -1], "hdr_same": -1}),
                Ok(s) => {
                    let t = s.icmp_type();
                    let h = s.header();
                    let hs = Icmpv4Header::from_slice(&b).map(|(x, rest)| x == h && rest.len() == s.payload().len()).unwrap_or(false)
                        // the value survives encode -> decode, all serialisers agree
                        && Icmpv4Header::from_slice(&h.to_bytes()).map(|(x, rest)| x == h && rest.is_empty()).unwrap_or(false)
                        && { let mut w: Vec<u8> = vec![]; h.write(&mut w).is_ok() && w[..] == h.to_bytes()[..] && w.len() == h.header_len() }
                        && Icmpv4Header::read(&mut std::io::Cursor::new(&h.to_bytes()[..])).map(|x| x == h).unwrap_or(false);
                    json!({"ev": "icmp4", "id": id, "bytes": b, "ok": 1, "req": -1, "len": -1, "layer": "", "kind": n_icmp4(&t), "hlen": s.header_len(),
                           "norm": h.to_bytes().to_vec(), "pay": rg(&c, s.payload()), "hdr_same": if hs && h.icmp_type == t && t.header_len() == s.header_len() { 1 } else { 0 }})
                }
            },
            "icmp6" => match Icmpv6Slice::from_slice(&b) {
                Err(e) => json!({"ev": "icmp6", "id": id, "bytes": b, "ok": 0, "req": e.required_len, "len": e.len, "kind": "", "norm": [], "pay": [-1, -1], "hdr_same": -1,
                                 "ps": {"k": "", "name": "", "req": -1, "len": -1}, "opts": none_opts(), "pv": none_pv(), "tc": [-1, -1, -1]}),
                Ok(s) => {
                    let t = s.icmp_type();
                    let h = s.header();
                    let hs = Icmpv6Header::from_slice(&b).map(|(x, rest)| x == h && rest.len() == s.payload().len()).unwrap_or(false)
                        && Icmpv6Header::from_slice(&h.to_bytes()).map(|(x, rest)| x == h && rest.is_empty()).unwrap_or(false)
                        && { let mut w: Vec<u8> = vec![]; h.write(&mut w).is_ok() && w[..] == h.to_bytes()[..] && w.len() == h.header_len() }
                        && Icmpv6Header::read(&mut std::io::Cursor::new(&h.to_bytes()[..])).map(|x| x == h).unwrap_or(false);
                    let (ps, opts, pv) = match s.payload_slice() {
                        Err(e) => (json!({"k": "err", "name": "", "req": e.required_len, "len": e.len}), none_opts(),
                                   // the type based entry points have to refuse as well
                                   if t.payload_slice(s.payload()).is_err() && t.payload_from_slice(s.payload()).is_err() { none_pv() } else { json!({"slice": [-1, -1], "fixed": [], "tp": [], "tp_len": -1, "tp_opts": [-1, -1], "inv": [-1, -1], "lax": -1, "alt": 0}) }),
                        Ok(p) => {
                            use icmpv6::Icmpv6PayloadSlice::*;
                            let o = match &p {
                                RouterSolicitation(x) => json!({"has": 1, "rg": rg(&c, x.options()), "steps": ndp_steps(&c, x.options_iterator())}),
                                RouterAdvertisement(x) => json!({"has": 1, "rg": rg(&c, x.options()), "steps": ndp_steps(&c, x.options_iterator())}),
                                NeighborSolicitation(x) => json!({"has": 1, "rg": rg(&c, x.options()), "steps": ndp_steps(&c, x.options_iterator())}),
                                NeighborAdvertisement(x) => json!({"has": 1, "rg": rg(&c, x.options()), "steps": ndp_steps(&c, x.options_iterator())}),
                                Redirect(x) => json!({"has": 1, "rg": rg(&c, x.options()), "steps": ndp_steps(&c, x.options_iterator())}),
                                _ => none_opts(),
                            };
                            (json!({"k": "ok", "name": n_pay6(&p), "req": -1, "len": -1}), o, payload_view(&c, &t, s.payload(), &p))
                        }
                    };
                    let fps = match t.fixed_payload_size() { None => -1i64, Some(x) => x as i64 };
                    assert!(h.fixed_payload_size() == t.fixed_payload_size() && t.header_len() == 8 && h.header_len() == 8);
                    json!({"ev": "icmp6", "id": id, "bytes": b, "ok": 1, "req": -1, "len": -1, "kind": n_icmp6(&t), "norm": h.to_bytes().to_vec(), "pay": rg(&c, s.payload()),
                           "hdr_same": if hs && h.icmp_type == t { 1 } else { 0 }, "ps": ps, "opts": opts, "pv": pv, "tc": [t.type_u8(), t.code_u8(), fps]})
                }
            },
            "ndp" => {
                // the two byte option header on its own: [ok, type, units, byte_len, rest length, re-encoded ok]
                let oh = match icmpv6::NdpOptionHeader::from_slice(&b) {
                    Ok((h, rest)) => vec![1, h.option_type.0 as i64, h.length_units as i64, h.byte_len() as i64, rest.len() as i64,
                                          if h.to_bytes()[..] == b[..2] && icmpv6::NdpOptionHeader::from_bytes([b[0], b[1]]) == h { 1 } else { 0 }],
                    Err(_) => vec![0, -1, -1, -1, -1, -1],
                };
                // echo header: identifier / sequence number are the two 16 bit halves of bytes 5 to 8
                let echo = if b.len() >= 4 {
                    let e = IcmpEchoHeader::from_bytes([b[0], b[1], b[2], b[3]]);
                    vec![e.id as i64, e.seq as i64, if e.to_bytes()[..] == b[..4] { 1 } else { 0 }]
                } else { vec![] };
                // the typed option slices as doors of their own (the whole slice is the option): verdict / error kind per option type
                fn ek<T>(r: Result<T, icmpv6::NdpOptionReadError>) -> &'static str {
                    use icmpv6::NdpOptionReadError::*;
                    if let Err(e) = &r {
                        let _ = format!("{} {:?}", e, e);
                    }
                    match r {
                        Ok(_) => "ok",
                        Err(UnexpectedEndOfSlice { .. }) => "UnexpectedEndOfSlice",
                        Err(ZeroLength { .. }) => "ZeroLength",
                        Err(UnexpectedSize { .. }) => "UnexpectedSize",
                        Err(UnexpectedHeader { .. }) => "UnexpectedHeader",
                        Err(_) => "Other",
                    }
                }
                let direct = json!([
                    [1, ek(icmpv6::SourceLinkLayerAddressOptionSlice::from_slice(&b))], [2, ek(icmpv6::TargetLinkLayerAddressOptionSlice::from_slice(&b))],
                    [3, ek(icmpv6::PrefixInformationOptionSlice::from_slice(&b))], [4, ek(icmpv6::RedirectedHeaderOptionSlice::from_slice(&b))],
                    [5, ek(icmpv6::MtuOptionSlice::from_slice(&b))], [-1, ek(icmpv6::UnknownNdpOptionSlice::from_slice(&b))],
                    [-3, ek(icmpv6::PrefixInformation::from_slice(&b))]]);
                json!({"ev": "ndp", "id": id, "bytes": b, "steps": ndp_steps(&c, icmpv6::NdpOptionsIterator::from_slice(&b)), "oh": oh, "echo": echo, "direct": direct})
            }
            "igmp" => match IgmpHeader::from_slice(&b) {
                Err(e) => json!({"ev": "igmp", "id": id, "bytes": b, "ok": 0, "req": e.required_len, "len": e.len, "kind": "", "hlen": -1, "norm": [], "rest": [-1, -1], "tf": [], "back": -1}),
                Ok((h, rest)) => {
                    // typed fields: type number, then every field / accessor of the variant
                    use IgmpType::*;
                    let g = |a: &igmp::GroupAddress| -> Vec<i64> { <[u8; 4]>::from(*a).iter().map(|x| *x as i64).collect() };
                    let mut tf: Vec<i64> = vec![];
                    match &h.igmp_type {
                        MembershipQuery(q) => { tf.push(0x11); tf.push(q.max_response_time as i64); tf.extend(g(&q.group_address)); }
                        MembershipQueryWithSources(q) => {
                            tf.push(0x11); tf.push(q.max_response_code.0 as i64); tf.push(q.max_response_code.as_10th_secs() as i64); tf.extend(g(&q.group_address));
                            tf.extend([q.flags() as i64, q.s_flag() as i64, q.qrv().value() as i64, q.qqic as i64, q.num_of_sources as i64]);
                        }
                        MembershipReportV1(q) => { tf.push(0x12); tf.extend(g(&q.group_address)); }
                        MembershipReportV2(q) => { tf.push(0x16); tf.extend(g(&q.group_address)); }
                        LeaveGroup(q) => { tf.push(0x17); tf.extend(g(&q.group_address)); }
                        MembershipReportV3(q) => { tf.push(0x22); tf.extend([q.flags[0] as i64, q.flags[1] as i64, q.num_of_records as i64]); }
                        Unknown(q) => { tf.push(q.igmp_type as i64); tf.push(q.raw_byte_1 as i64); tf.extend(q.raw_bytes_4_7.iter().map(|x| *x as i64)); }
                    }
                    tf.push(h.checksum as i64);
                    // encode -> decode gives the value back
                    let back = IgmpHeader::from_slice(&h.to_bytes()).map(|(x, r)| x == h && r.is_empty()).unwrap_or(false);
                    json!({"ev": "igmp", "id": id, "bytes": b, "ok": 1, "req": -1, "len": -1, "kind": n_igmp(&h.igmp_type), "hlen": h.header_len(),
                           "norm": h.to_bytes().to_vec(), "rest": rg(&c, rest), "tf": tf, "back": if back { 1 } else { 0 }})
                }
            },
            "grouprec" => match igmp::ReportGroupRecordV3Header::from_slice(&b) {
                Err(e) => json!({"ev": "grouprec", "id": id, "bytes": b, "ok": 0, "req": e.required_len, "len": e.len, "f": [], "rest": [-1, -1], "re": []}),
                Ok((h, rest)) => json!({"ev": "grouprec", "id": id, "bytes": b, "ok": 1, "req": -1, "len": -1,
                                        "f": [h.record_type.0 as i64, h.aux_data_len as i64, h.num_of_sources as i64], "rest": rg(&c, rest), "re": h.to_bytes().to_vec()}),
            },
            "arp" => {
                let s = ArpPacketSlice::from_slice(&b);
                match s {
                    Err(e) => json!({"ev": "arp", "id": id, "bytes": b, "ok": 0, "req": e.required_len, "view": "", "f": [], "back": -1, "srg": [-1, -1]}),
                    Ok(s) => {
                        let p = s.to_packet();
                        match p.try_eth_ipv4() {
                            Ok(v) => {
                                let mut f: Vec<i64> = vec![v.operation.0 as i64];
                                f.extend(v.sender_mac.iter().map(|x| *x as i64));
                                f.extend(v.sender_ipv4.iter().map(|x| *x as i64));
                                f.extend(v.target_mac.iter().map(|x| *x as i64));
                                f.extend(v.target_ipv4.iter().map(|x| *x as i64));
                                // the view written out again, its address accessors and the TryFrom door
                                let back = ArpPacket::from(v.clone()) == p && v.to_arp_packet() == p
                                    && v.to_bytes()[..] == b[..ArpEthIpv4Packet::LEN] && v.sender_ipv4_addr().octets() == v.sender_ipv4 && v.target_ipv4_addr().octets() == v.target_ipv4
                                    && ArpEthIpv4Packet::try_from(p.clone()) == Ok(v.clone());
                                json!({"ev": "arp", "id": id, "bytes": b, "ok": 1, "req": -1, "view": "ok", "f": f, "back": if back { 1 } else { 0 }, "srg": rg(&c, s.slice())})
                            }
                            Err(e) => {
                                let _ = format!("{} {:?}", e, e);
                                let same = ArpEthIpv4Packet::try_from(p.clone()) == Err(e.clone());
                                json!({"ev": "arp", "id": id, "bytes": b, "ok": 1, "req": -1, "view": if same { n_arpview(&e) } else { "TryFromDiffers" }, "f": [], "back": -1, "srg": rg(&c, s.slice())})
                            }
                        }
                    }
                }
            }
            // code tables of the typed messages: which code values each from_u8 / from_values accepts, and that code_u8 gives the value back
            "codes" => {
                let mut acc: Vec<Vec<i64>> = vec![vec![]; 8];
                let mut round = 1;
                for c in 0..=255u8 {
                    if let Some(x) = icmpv4::DestUnreachableHeader::from_values(c, 0x1234) { acc[0].push(c as i64); if x.code_u8() != c { round = 0; } }
                    if let Some(x) = icmpv4::RedirectCode::from_u8(c) { acc[1].push(c as i64); if x.code_u8() != c { round = 0; } }
                    if let Some(x) = icmpv4::TimeExceededCode::from_u8(c) { acc[2].push(c as i64); if x.code_u8() != c { round = 0; } }
                    if icmpv4::ParameterProblemHeader::from_values(c, 7).is_some() { acc[3].push(c as i64); }
                    if let Some(x) = icmpv6::DestUnreachableCode::from_u8(c) { acc[4].push(c as i64); if x.code_u8() != c { round = 0; } }
                    if let Some(x) = icmpv6::TimeExceededCode::from_u8(c) { acc[5].push(c as i64); if x.code_u8() != c { round = 0; } }
                    if let Some(x) = icmpv6::ParameterProblemCode::from_u8(c) { acc[6].push(c as i64); if x.code_u8() != c { round = 0; } }
                    if u8::from(icmpv6::NdpOptionType::from(c)) != c || icmpv6::NdpOptionType(c).0 != c { round = 0; }
                }
                json!({"ev": "codes", "id": id, "v4_dest": acc[0], "v4_redirect": acc[1], "v4_time": acc[2], "v4_param": acc[3],
                       "v6_dest": acc[4], "v6_time": acc[5], "v6_param": acc[6], "round": round})
            }
            other => panic!("unknown ctl case {}", other),
        }
    }));
    r.unwrap_or_else(|_| json!({"ev": "panic", "id": id, "kind": kind}))
}
