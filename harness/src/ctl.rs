//! Driver for the typed control message views (spec/Ctl.tla, C17).
use crate::proj::Ctx;
use etherparse::*;
use serde_json::{json, Value};
use std::panic::{catch_unwind, AssertUnwindSafe};

/// variant name of a Debug rendering: up to the first '(' , '{' or ' '
fn vname<T: core::fmt::Debug>(v: &T) -> String {
    let s = format!("{:?}", v);
    s.chars().take_while(|c| c.is_alphanumeric() || *c == '_').collect()
}
fn rg(c: &Ctx, s: &[u8]) -> Vec<i64> {
    let (o, l) = c.rg(s);
    vec![o, l]
}

pub fn ndp_steps(c: &Ctx, mut it: icmpv6::NdpOptionsIterator) -> Vec<Value> {
    let mut steps = vec![];
    let mut nones = 0;
    let mut budget = 80;
    while nones < 3 && budget > 0 {
        budget -= 1;
        let r = it.next();
        let v = match &r {
            None => {
                nones += 1;
                json!({"k": "none", "name": "", "t": -1, "rg": [-1, -1], "bytes": []})
            }
            Some(Ok(o)) => json!({"k": "item", "name": vname(o), "t": o.as_bytes()[0], "rg": rg(c, o.as_bytes()), "bytes": o.as_bytes()}),
            Some(Err(e)) => {
                let _ = format!("{} {:?}", e, e);
                use icmpv6::NdpOptionReadError::*;
                let (name, t): (&str, i64) = match e {
                    UnexpectedEndOfSlice { option_id, .. } => ("UnexpectedEndOfSlice", option_id.0 as i64),
                    ZeroLength { option_id } => ("ZeroLength", option_id.0 as i64),
                    UnexpectedSize { option_id, .. } => ("UnexpectedSize", option_id.0 as i64),
                    UnexpectedHeader { actual_option_id, .. } => ("UnexpectedHeader", actual_option_id.0 as i64),
                    _ => ("Other", -1),
                };
                json!({"k": "err", "name": name, "t": t, "rg": [-1, -1], "bytes": []})
            }
        };
        steps.push(json!({"r": v, "rest": it.rest().len()}));
    }
    if budget == 0 {
        steps.push(json!({"r": {"k": "unbounded", "name": "", "t": -1, "rg": [-1, -1], "bytes": []}, "rest": -1}));
    }
    steps
}

fn none_opts() -> Value {
    json!({"has": 0, "rg": [-1, -1], "steps": []})
}

pub fn run_case(id: &str, case: &Value) -> Value {
    let kind = case["kind"].as_str().unwrap().to_string();
    let b: Vec<u8> = case["bytes"].as_array().unwrap().iter().map(|x| x.as_u64().unwrap() as u8).collect();
    let r = catch_unwind(AssertUnwindSafe(|| {
        let c = Ctx::new(&b);
        match kind.as_str() {
            "icmp4" => match Icmpv4Slice::from_slice(&b) {
                Err(e) => json!({"ev": "icmp4", "id": id, "bytes": b, "ok": 0, "req": e.required_len, "len": e.len, "layer": format!("{:?}", e.layer),
                                 "kind": "", "hlen": -1, "norm": [], "pay": [-1, -1], "hdr_same": -1}),
                Ok(s) => {
                    let t = s.icmp_type();
                    let h = s.header();
                    let hs = Icmpv4Header::from_slice(&b).map(|(x, rest)| x == h && rest.len() == s.payload().len()).unwrap_or(false);
                    json!({"ev": "icmp4", "id": id, "bytes": b, "ok": 1, "req": -1, "len": -1, "layer": "", "kind": vname(&t), "hlen": s.header_len(),
                           "norm": h.to_bytes().to_vec(), "pay": rg(&c, s.payload()), "hdr_same": if hs && h.icmp_type == t && t.header_len() == s.header_len() { 1 } else { 0 }})
                }
            },
            "icmp6" => match Icmpv6Slice::from_slice(&b) {
                Err(e) => json!({"ev": "icmp6", "id": id, "bytes": b, "ok": 0, "req": e.required_len, "len": e.len, "kind": "", "norm": [], "pay": [-1, -1], "hdr_same": -1,
                                 "ps": {"k": "", "name": "", "req": -1, "len": -1}, "opts": none_opts()}),
                Ok(s) => {
                    let t = s.icmp_type();
                    let h = s.header();
                    let hs = Icmpv6Header::from_slice(&b).map(|(x, rest)| x == h && rest.len() == s.payload().len()).unwrap_or(false);
                    let (ps, opts) = match s.payload_slice() {
                        Err(e) => (json!({"k": "err", "name": "", "req": e.required_len, "len": e.len}), none_opts()),
                        Ok(p) => {
                            use icmpv6::Icmpv6PayloadSlice::*;
                            let o = match &p {
                                RouterSolicitation(x) => json!({"has": 1, "rg": rg(&c, x.options()), "steps": ndp_steps(&c, x.options_iterator())}),
                                RouterAdvertisement(x) => json!({"has": 1, "rg": rg(&c, x.options()), "steps": ndp_steps(&c, x.options_iterator())}),
                                NeighborSolicitation(x) => json!({"has": 1, "rg": rg(&c, x.options()), "steps": ndp_steps(&c, x.options_iterator())}),
                                NeighborAdvertisement(x) => json!({"has": 1, "rg": rg(&c, x.options()), "steps": ndp_steps(&c, x.options_iterator())}),
                                Redirect(x) => json!({"has": 1, "rg": rg(&c, x.options()), "steps": ndp_steps(&c, x.options_iterator())}),
                                _ => none_opts(),
                            };
                            (json!({"k": "ok", "name": vname(&p), "req": -1, "len": -1}), o)
                        }
                    };
                    json!({"ev": "icmp6", "id": id, "bytes": b, "ok": 1, "req": -1, "len": -1, "kind": vname(&t), "norm": h.to_bytes().to_vec(), "pay": rg(&c, s.payload()),
                           "hdr_same": if hs && h.icmp_type == t { 1 } else { 0 }, "ps": ps, "opts": opts})
                }
            },
            "ndp" => json!({"ev": "ndp", "id": id, "bytes": b, "steps": ndp_steps(&c, icmpv6::NdpOptionsIterator::from_slice(&b))}),
            "igmp" => match IgmpHeader::from_slice(&b) {
                Err(e) => json!({"ev": "igmp", "id": id, "bytes": b, "ok": 0, "req": e.required_len, "len": e.len, "kind": "", "hlen": -1, "norm": [], "rest": [-1, -1]}),
                Ok((h, rest)) => json!({"ev": "igmp", "id": id, "bytes": b, "ok": 1, "req": -1, "len": -1, "kind": vname(&h.igmp_type), "hlen": h.header_len(),
                                        "norm": h.to_bytes().to_vec(), "rest": rg(&c, rest)}),
            },
            "grouprec" => match igmp::ReportGroupRecordV3Header::from_slice(&b) {
                Err(e) => json!({"ev": "grouprec", "id": id, "bytes": b, "ok": 0, "req": e.required_len, "len": e.len, "f": [], "rest": [-1, -1], "re": []}),
                Ok((h, rest)) => json!({"ev": "grouprec", "id": id, "bytes": b, "ok": 1, "req": -1, "len": -1,
                                        "f": [h.record_type.0 as i64, h.aux_data_len as i64, h.num_of_sources as i64], "rest": rg(&c, rest), "re": h.to_bytes().to_vec()}),
            },
            "arp" => {
                let s = ArpPacketSlice::from_slice(&b);
                match s {
                    Err(e) => json!({"ev": "arp", "id": id, "bytes": b, "ok": 0, "req": e.required_len, "view": "", "f": [], "back": -1}),
                    Ok(s) => {
                        let p = s.to_packet();
                        match p.try_eth_ipv4() {
                            Ok(v) => {
                                let mut f: Vec<i64> = vec![v.operation.0 as i64];
                                f.extend(v.sender_mac.iter().map(|x| *x as i64));
                                f.extend(v.sender_ipv4.iter().map(|x| *x as i64));
                                f.extend(v.target_mac.iter().map(|x| *x as i64));
                                f.extend(v.target_ipv4.iter().map(|x| *x as i64));
                                let back = ArpPacket::from(v.clone()) == p;
                                json!({"ev": "arp", "id": id, "bytes": b, "ok": 1, "req": -1, "view": "ok", "f": f, "back": if back { 1 } else { 0 }})
                            }
                            Err(e) => {
                                let _ = format!("{} {:?}", e, e);
                                json!({"ev": "arp", "id": id, "bytes": b, "ok": 1, "req": -1, "view": vname(&e), "f": [], "back": -1})
                            }
                        }
                    }
                }
            }
            other => panic!("unknown ctl case {}", other),
        }
    }));
    r.unwrap_or_else(|_| json!({"ev": "panic", "id": id, "kind": kind}))
}
