//! drive: executes cases against the real crate and writes ndjson trace events
//! that the Trace_* specifications validate.
use rand::{rngs::StdRng, Rng, SeedableRng};
use serde_json::{json, Value};
use verif_harness::gen;
use verif_harness::runs::{apis_for, run_api, Guards};
use verif_harness::util::*;

fn decode_event(g: &mut Guards, id: &str, bytes: &[u8], plan: &[(String, u16, usize)], sweep: bool) -> Value {
    let mut runs = vec![];
    // accessor sweep of all single-layer decoders at every offset the plan names, and at the offsets behind
    // the headers found there (so that the transport decoders also see transport bytes)
    let mut offs: Vec<usize> = if sweep { plan.iter().map(|p| p.2).filter(|o| *o <= bytes.len()).collect() } else { vec![] };
    for o in offs.clone() {
        for d in [20usize, 40, 48] {
            if o + d <= bytes.len() {
                offs.push(o + d);
            }
        }
    }
    offs.sort();
    offs.dedup();
    for o in offs {
        for api in apis_for("sweep") {
            runs.push(run_api(g, api, &bytes[o..], 0, o));
        }
    }
    for (entry, et, skip) in plan {
        if *skip > bytes.len() {
            continue;
        }
        for api in apis_for(entry) {
            runs.push(run_api(g, api, &bytes[*skip..], *et, *skip));
        }
    }
    json!({"ev": "decode", "id": id, "bytes": bytes, "runs": runs})
}

/// recording direction: seeded damaged packets
fn decode_gen(a: &Args) {
    let seed = a.num("seed", 1);
    let n = a.num("n", 1000) as usize;
    let mut out = Out::new(a.get("out").expect("--out"));
    let marker = Marker::new(a.get("marker"));
    let skip = a.skip_ids();
    let mut r = StdRng::seed_from_u64(seed);
    let mut g = Guards::new(1 << 16);
    for i in 0..n {
        let p = gen::gen_packet(&mut r);
        let id = format!("g{}", i);
        let b = &p.bytes;
        let mut plan: Vec<(String, u16, usize)> = vec![(p.link.to_string(), 0, 0)];
        if p.link == "eth" && b.len() >= 14 {
            plan.push(("ether".into(), u16::from_be_bytes([b[12], b[13]]), 14));
        }
        if p.net_off <= b.len() {
            match p.net_et {
                0x0800 => {
                    plan.push(("ip".into(), 0, p.net_off));
                    plan.push((if r.gen_range(0..10) == 0 { "ipv6" } else { "ipv4" }.into(), 0, p.net_off));
                }
                0x86dd => {
                    plan.push(("ip".into(), 0, p.net_off));
                    plan.push((if r.gen_range(0..10) == 0 { "ipv4" } else { "ipv6" }.into(), 0, p.net_off));
                }
                et => plan.push(("ether".into(), et, p.net_off)),
            }
        } else if r.gen_range(0..4) == 0 {
            plan.push(("ip".into(), 0, 0));
        }
        if skip.contains(&id) {
            continue;
        }
        marker.set(&id);
        let ev = decode_event(&mut g, &id, b, &plan, a.get("sweep").is_some());
        out.line(&ev);
    }
    out.finish();
}

/// replay direction: inputs enumerated by TLC (MC_Decoder): {"id", "entry", "et", "bytes"}
fn decode_in(a: &Args) {
    let inp = std::fs::read_to_string(a.get("in").expect("--in")).expect("read input");
    let mut out = Out::new(a.get("out").expect("--out"));
    let marker = Marker::new(a.get("marker"));
    let skip = a.skip_ids();
    let mut g = Guards::new(1 << 16);
    for line in inp.lines() {
        if line.trim().is_empty() {
            continue;
        }
        let v: Value = serde_json::from_str(line).expect("input json");
        let id = v["id"].as_str().map(|s| s.to_string()).unwrap_or_else(|| v["id"].to_string());
        if skip.contains(&id) {
            continue;
        }
        let bytes: Vec<u8> = v["bytes"].as_array().map(|x| x.iter().map(|y| y.as_u64().unwrap() as u8).collect()).unwrap_or_default();
        let mut plan: Vec<(String, u16, usize)> = vec![];
        if let Some(p) = v["plan"].as_array() {
            for e in p {
                plan.push((e[0].as_str().unwrap().to_string(), e[1].as_i64().unwrap().max(0) as u16, e[2].as_u64().unwrap() as usize));
            }
        } else {
            plan.push((v["entry"].as_str().unwrap().to_string(), v["et"].as_i64().unwrap_or(0).max(0) as u16, 0));
        }
        marker.set(&id);
        let ev = decode_event(&mut g, &id, &bytes, &plan, a.get("sweep").is_some());
        out.line(&ev);
    }
    out.finish();
}

/// fragment pool histories: {"id", "lens": [..], "map": [..], "ops": [..]} per line
fn defrag_run(a: &Args) {
    let inp = std::fs::read_to_string(a.get("in").expect("--in")).expect("read input");
    let mut out = Out::new(a.get("out").expect("--out"));
    let marker = Marker::new(a.get("marker"));
    let skip = a.skip_ids();
    for line in inp.lines() {
        if line.trim().is_empty() {
            continue;
        }
        let v: Value = serde_json::from_str(line).expect("input json");
        let id = v["id"].as_str().unwrap().to_string();
        if skip.contains(&id) {
            continue;
        }
        marker.set(&id);
        let lens: Vec<u64> = v["lens"].as_array().unwrap().iter().map(|x| x.as_u64().unwrap()).collect();
        let map: Vec<u64> = v["map"].as_array().unwrap().iter().map(|x| x.as_u64().unwrap()).collect();
        let mut evs = vec![];
        let r = std::panic::catch_unwind(std::panic::AssertUnwindSafe(|| {
            verif_harness::defrag::run_history(&id, &lens, &map, v["ops"].as_array().unwrap(), &mut evs);
        }));
        for e in &evs {
            out.line(e);
        }
        if r.is_err() {
            out.line(&json!({"ev": "panic", "id": id}));
        }
    }
    out.finish();
}

/// generic line driver: one input json per line -> f(id, input) -> one event per line
fn per_line(a: &Args, f: fn(&str, &Value) -> Value) {
    let inp = std::fs::read_to_string(a.get("in").expect("--in")).expect("read input");
    let mut out = Out::new(a.get("out").expect("--out"));
    let marker = Marker::new(a.get("marker"));
    let skip = a.skip_ids();
    for (i, line) in inp.lines().enumerate() {
        if line.trim().is_empty() {
            continue;
        }
        let v: Value = serde_json::from_str(line).expect("input json");
        let id = v["id"].as_str().map(|s| s.to_string()).unwrap_or_else(|| format!("x{}", i));
        if skip.contains(&id) {
            continue;
        }
        marker.set(&id);
        let ev = f(&id, &v);
        out.line(&ev);
    }
    out.finish();
}

fn main() {
    // panics of the code under test are data (caught per case and recorded in the trace), not console noise
    if std::env::var("VERIF_PANIC_VERBOSE").is_err() {
        std::panic::set_hook(Box::new(|_| {}));
    }
    contain();
    let a = Args::new();
    match a.v.get(1).map(|s| s.as_str()) {
        Some("decode-gen") => decode_gen(&a),
        Some("decode-in") => decode_in(&a),
        Some("defrag-run") => defrag_run(&a),
        Some("opts-run") => per_line(&a, verif_harness::tcpopts::run_case),
        Some("cks-run") => per_line(&a, verif_harness::cks::run_case),
        Some("wire-run") => per_line(&a, verif_harness::wire::run_case),
        Some("fields-run") => per_line(&a, verif_harness::fields::run_case),
        Some("io-run") => per_line(&a, verif_harness::io::run_case),
        Some("build-run") => per_line(&a, verif_harness::builder::run_case),
        Some("ctl-run") => per_line(&a, verif_harness::ctl::run_case),
        Some("ext-run") => per_line(&a, verif_harness::extchain::run_config),
        other => {
            eprintln!("unknown sub command {:?}", other);
            std::process::exit(2);
        }
    }
}
