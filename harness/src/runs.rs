//! All decoding entry points of the crate, each bound to one parameterisation
//! (mode, family, entry, upto) of the decoder machine in spec/Decoder.tla.
use crate::errp::*;
use crate::guard::GuardBuf;
use crate::proj::*;
use etherparse::*;
use serde_json::{json, Value};
use std::panic::{catch_unwind, AssertUnwindSafe};

pub struct Api {
    pub name: &'static str,
    pub m: &'static str,
    pub fam: &'static str,
    pub entry: &'static str,
    pub upto: &'static str,
    pub f: fn(&Ctx, &[u8], u16) -> Res,
}

fn touch<T: core::fmt::Debug>(x: &T) {
    // Debug rendering of every result and error is part of the accessor schedule (C02)
    let s = format!("{:?}", x);
    std::hint::black_box(s.len());
}
/// an Err of a decoder: the projection of the error + what its conversion into the catch-all error says
fn err_res<E: ToErrP + Clone + Into<err::FromSliceError> + core::fmt::Display>(e: E) -> Res {
    touch_d(&e);
    let mut r = Res::err(e.errp());
    if !crate::errp::conv_keeps(&e) {
        r.econv.push("from_slice_error".to_string());
    }
    r
}
fn touch_d<T: core::fmt::Display>(x: &T) {
    let s = format!("{}", x);
    std::hint::black_box(s.len());
}

fn a_sliced_eth(c: &Ctx, b: &[u8], _: u16) -> Res {
    let x = SlicedPacket::from_ethernet(b);
    touch(&x);
    match x {
        Ok(p) => sliced(c, &p),
        Err(e) => err_res(e),
    }
}
fn a_sliced_sll(c: &Ctx, b: &[u8], _: u16) -> Res {
    let x = SlicedPacket::from_linux_sll(b);
    touch(&x);
    match x {
        Ok(p) => sliced(c, &p),
        Err(e) => err_res(e),
    }
}
fn a_sliced_ether(c: &Ctx, b: &[u8], et: u16) -> Res {
    let x = SlicedPacket::from_ether_type(EtherType(et), b);
    touch(&x);
    match x {
        Ok(p) => sliced(c, &p),
        Err(e) => err_res(e),
    }
}
fn a_sliced_ip(c: &Ctx, b: &[u8], _: u16) -> Res {
    let x = SlicedPacket::from_ip(b);
    touch(&x);
    match x {
        Ok(p) => sliced(c, &p),
        Err(e) => err_res(e),
    }
}
fn a_lax_sliced_eth(c: &Ctx, b: &[u8], _: u16) -> Res {
    let x = LaxSlicedPacket::from_ethernet(b);
    touch(&x);
    match x {
        Ok(p) => lax_sliced(c, &p),
        Err(e) => err_res(e),
    }
}
fn a_lax_sliced_ether(c: &Ctx, b: &[u8], et: u16) -> Res {
    let p = LaxSlicedPacket::from_ether_type(EtherType(et), b);
    touch(&p);
    lax_sliced(c, &p)
}
fn a_lax_sliced_ip(c: &Ctx, b: &[u8], _: u16) -> Res {
    let x = LaxSlicedPacket::from_ip(b);
    touch(&x);
    match x {
        Ok(p) => lax_sliced(c, &p),
        Err(e) => { touch_d(&e); Res::err(e.errp()) },
    }
}
fn a_headers_eth(c: &Ctx, b: &[u8], _: u16) -> Res {
    let x = PacketHeaders::from_ethernet_slice(b);
    touch(&x);
    match x {
        Ok(p) => headers(c, &p),
        Err(e) => err_res(e),
    }
}
fn a_headers_ether(c: &Ctx, b: &[u8], et: u16) -> Res {
    let x = PacketHeaders::from_ether_type(EtherType(et), b);
    touch(&x);
    match x {
        Ok(p) => headers(c, &p),
        Err(e) => err_res(e),
    }
}
fn a_headers_ip(c: &Ctx, b: &[u8], _: u16) -> Res {
    let x = PacketHeaders::from_ip_slice(b);
    touch(&x);
    match x {
        Ok(p) => headers(c, &p),
        Err(e) => err_res(e),
    }
}
fn a_lax_headers_eth(c: &Ctx, b: &[u8], _: u16) -> Res {
    let x = LaxPacketHeaders::from_ethernet(b);
    touch(&x);
    match x {
        Ok(p) => lax_headers(c, &p),
        Err(e) => err_res(e),
    }
}
fn a_lax_headers_ether(c: &Ctx, b: &[u8], et: u16) -> Res {
    let p = LaxPacketHeaders::from_ether_type(EtherType(et), b);
    touch(&p);
    lax_headers(c, &p)
}
fn a_lax_headers_ip(c: &Ctx, b: &[u8], _: u16) -> Res {
    let x = LaxPacketHeaders::from_ip(b);
    touch(&x);
    match x {
        Ok(p) => lax_headers(c, &p),
        Err(e) => { touch_d(&e); Res::err(e.errp()) },
    }
}
fn a_lax_headers_sll(c: &Ctx, b: &[u8], _: u16) -> Res {
    let x = LaxPacketHeaders::from_linux_sll(b);
    touch(&x);
    match x {
        Ok(p) => lax_headers(c, &p),
        Err(e) => err_res(e),
    }
}

// ---- IP boundary functions (twelve copies) ----
fn ip_slice_res(c: &Ctx, s: &IpSlice, whole: &[u8]) -> Res {
    let mut r = Res::new();
    match s {
        IpSlice::Ipv4(i) => ipv4_layers(c, &mut r, &i.header(), &i.extensions(), ip_pay(c, i.payload())),
        IpSlice::Ipv6(i) => ipv6_layers(c, &mut r, &i.header(), i.extensions(), ip_pay(c, i.payload())),
    }
    // conversion named in C02: must not panic on an accepted slice; and it is the value the struct decoder returns for the same bytes
    // (where that decoder takes the whole chain: a header kind that no longer fits the struct ends struct decoding early, DocExtSlotFull)
    let th = s.to_header();
    touch(&th);
    if let Ok((hh, pp)) = IpHeaders::from_slice(whole) {
        if pp.ip_number == s.payload().ip_number && pp.payload.len() == s.payload().payload.len() && hh != th {
            r.tohdr.push("ip".to_string());
        }
    }
    // convenience accessors of the IP boundary value and of its header view
    let oct = |a: std::net::IpAddr| -> Vec<i64> { match a { std::net::IpAddr::V4(x) => x.octets().iter().map(|v| *v as i64).collect(), std::net::IpAddr::V6(x) => x.octets().iter().map(|v| *v as i64).collect() } };
    let h = s.header();
    let hv: Vec<i64> = vec![h.version() as i64, h.header_len() as i64, h.payload_ip_number().0 as i64, h.next_header().0 as i64, b2i(h.is_ipv4()), b2i(h.is_ipv6())];
    let hslice: Vec<i64> = { let (o, l) = c.rg(h.slice()); vec![o, l] };
    r.conv = json!({"has": 4, "vlan_ids": [], "vlan": [], "epay": no_pay(), "ipay": ip_pay(c, s.payload()), "pet": -2, "frag": b2i(s.is_fragmenting_payload()), "mism": [],
                    "pin": s.payload_ip_number().0, "src": oct(s.source_addr()), "dst": oct(s.destination_addr()),
                    "hv": hv, "hsrc": oct(h.source_addr()), "hdst": oct(h.destination_addr()), "hslice": hslice});
    r
}
fn lax_ip_slice_res(c: &Ctx, s: &LaxIpSlice) -> Res {
    let mut r = Res::new();
    match s {
        LaxIpSlice::Ipv4(i) => ipv4_layers(c, &mut r, &i.header(), &i.extensions(), lax_ip_pay(c, i.payload())),
        LaxIpSlice::Ipv6(i) => ipv6_layers(c, &mut r, &i.header(), i.extensions(), lax_ip_pay(c, i.payload())),
    }
    let oct = |a: std::net::IpAddr| -> Vec<i64> { match a { std::net::IpAddr::V4(x) => x.octets().iter().map(|v| *v as i64).collect(), std::net::IpAddr::V6(x) => x.octets().iter().map(|v| *v as i64).collect() } };
    r.conv = json!({"has": 5, "vlan_ids": [], "vlan": [], "epay": no_pay(), "ipay": lax_ip_pay(c, s.payload()), "pet": -2, "frag": b2i(s.is_fragmenting_payload()), "mism": [],
                    "pin": s.payload_ip_number().0, "src": oct(s.source_addr()), "dst": oct(s.destination_addr())});
    r
}
fn a_ipslice(c: &Ctx, b: &[u8], _: u16) -> Res {
    let x = IpSlice::from_slice(b);
    touch(&x);
    match x {
        Ok(s) => ip_slice_res(c, &s, b),
        Err(e) => err_res(e),
    }
}
fn a_ipv4slice(c: &Ctx, b: &[u8], _: u16) -> Res {
    let x = Ipv4Slice::from_slice(b);
    touch(&x);
    match x {
        Ok(i) => {
            let mut r = Res::new();
            ipv4_layers(c, &mut r, &i.header(), &i.extensions(), ip_pay(c, i.payload()));
            r
        }
        Err(e) => err_res(e),
    }
}
fn a_ipv6slice(c: &Ctx, b: &[u8], _: u16) -> Res {
    let x = Ipv6Slice::from_slice(b);
    touch(&x);
    match x {
        Ok(i) => {
            let mut r = Res::new();
            ipv6_layers(c, &mut r, &i.header(), i.extensions(), ip_pay(c, i.payload()));
            r
        }
        Err(e) => err_res(e),
    }
}
fn lax_stop(r: &mut Res, st: &Option<(err::ipv6_exts::HeaderSliceError, err::Layer)>) {
    if let Some((e, l)) = st {
        touch_d(e);
        r.err = e.errp().with_stop(layer_s(*l));
    }
}
fn a_laxipslice(c: &Ctx, b: &[u8], _: u16) -> Res {
    let x = LaxIpSlice::from_slice(b);
    touch(&x);
    match x {
        Ok((s, st)) => {
            let mut r = lax_ip_slice_res(c, &s);
            lax_stop(&mut r, &st);
            r
        }
        Err(e) => { touch_d(&e); Res::err(e.errp()) },
    }
}
fn a_laxipv4slice(c: &Ctx, b: &[u8], _: u16) -> Res {
    let x = LaxIpv4Slice::from_slice(b);
    touch(&x);
    match x {
        Ok((i, st)) => {
            let mut r = Res::new();
            ipv4_layers(c, &mut r, &i.header(), &i.extensions(), lax_ip_pay(c, i.payload()));
            if let Some(e) = &st {
                touch_d(e);
                r.err = e.errp().with_stop("IpAuthHeader".into());
            }
            r
        }
        Err(e) => err_res(e),
    }
}
fn a_laxipv6slice(c: &Ctx, b: &[u8], _: u16) -> Res {
    let x = LaxIpv6Slice::from_slice(b);
    touch(&x);
    match x {
        Ok((i, st)) => {
            let mut r = Res::new();
            ipv6_layers(c, &mut r, &i.header(), i.extensions(), lax_ip_pay(c, i.payload()));
            lax_stop(&mut r, &st);
            r
        }
        Err(e) => err_res(e),
    }
}
fn a_iph(c: &Ctx, b: &[u8], _: u16) -> Res {
    let x = IpHeaders::from_slice(b);
    touch(&x);
    match x {
        Ok((h, p)) => {
            let mut r = Res::new();
            ip_hdr_layers(&mut r, &h);
            r.pay = ip_pay(c, &p);
            r
        }
        Err(e) => err_res(e),
    }
}
fn a_iph4(c: &Ctx, b: &[u8], _: u16) -> Res {
    let x = IpHeaders::from_ipv4_slice(b);
    touch(&x);
    match x {
        Ok((h, p)) => {
            let mut r = Res::new();
            ip_hdr_layers(&mut r, &h);
            r.pay = ip_pay(c, &p);
            r
        }
        Err(e) => err_res(e),
    }
}
fn a_iph6(c: &Ctx, b: &[u8], _: u16) -> Res {
    let x = IpHeaders::from_ipv6_slice(b);
    touch(&x);
    match x {
        Ok((h, p)) => {
            let mut r = Res::new();
            ip_hdr_layers(&mut r, &h);
            r.pay = ip_pay(c, &p);
            r
        }
        Err(e) => err_res(e),
    }
}
fn a_iph_lax(c: &Ctx, b: &[u8], _: u16) -> Res {
    let x = IpHeaders::from_slice_lax(b);
    touch(&x);
    match x {
        Ok((h, p, st)) => {
            let mut r = Res::new();
            ip_hdr_layers(&mut r, &h);
            r.pay = lax_ip_pay(c, &p);
            if let Some((e, l)) = &st {
                touch_d(e);
                r.err = e.errp().with_stop(layer_s(*l));
            }
            r
        }
        Err(e) => { touch_d(&e); Res::err(e.errp()) },
    }
}
fn a_iph4_lax(c: &Ctx, b: &[u8], _: u16) -> Res {
    let x = IpHeaders::from_ipv4_slice_lax(b);
    touch(&x);
    match x {
        Ok((h, p, st)) => {
            let mut r = Res::new();
            ip_hdr_layers(&mut r, &h);
            r.pay = lax_ip_pay(c, &p);
            if let Some(e) = &st {
                touch_d(e);
                r.err = e.errp().with_stop("IpAuthHeader".into());
            }
            r
        }
        Err(e) => { touch_d(&e); Res::err(e.errp()) },
    }
}
fn a_iph6_lax(c: &Ctx, b: &[u8], _: u16) -> Res {
    let x = IpHeaders::from_ipv6_slice_lax(b);
    touch(&x);
    match x {
        Ok((h, p, st)) => {
            let mut r = Res::new();
            ip_hdr_layers(&mut r, &h);
            r.pay = lax_ip_pay(c, &p);
            if let Some((e, l)) = &st {
                touch_d(e);
                r.err = e.errp().with_stop(layer_s(*l));
            }
            r
        }
        Err(e) => err_res(e),
    }
}

fn sweep_res(c: &Ctx, which: &str, b: &[u8]) -> Res {
    let (digest, n, mism) = crate::sweep::sweep(c, which, b);
    let mut r = Res::new();
    r.layers.push(json!({"k": "sweep", "off": 0, "hlen": n, "f": [digest], "p": no_pay()}));
    r.conv["mism"] = json!(mism);
    r
}
fn a_sweep_link(c: &Ctx, b: &[u8], _: u16) -> Res {
    sweep_res(c, "link", b)
}
fn a_sweep_net(c: &Ctx, b: &[u8], _: u16) -> Res {
    sweep_res(c, "net", b)
}
fn a_sweep_transport(c: &Ctx, b: &[u8], _: u16) -> Res {
    sweep_res(c, "transport", b)
}
fn a_sweep_packet(c: &Ctx, b: &[u8], _: u16) -> Res {
    sweep_res(c, "packet", b)
}

pub const APIS: &[Api] = &[
    Api { name: "sweep:link", m: "sweep", fam: "sweep", entry: "sweep", upto: "all", f: a_sweep_link },
    Api { name: "sweep:net", m: "sweep", fam: "sweep", entry: "sweep", upto: "all", f: a_sweep_net },
    Api { name: "sweep:transport", m: "sweep", fam: "sweep", entry: "sweep", upto: "all", f: a_sweep_transport },
    Api { name: "sweep:packet", m: "sweep", fam: "sweep", entry: "sweep", upto: "all", f: a_sweep_packet },
    Api { name: "SlicedPacket::from_ethernet", m: "strict", fam: "slice", entry: "eth", upto: "all", f: a_sliced_eth },
    Api { name: "LaxSlicedPacket::from_ethernet", m: "lax", fam: "slice", entry: "eth", upto: "all", f: a_lax_sliced_eth },
    Api { name: "PacketHeaders::from_ethernet_slice", m: "strict", fam: "struct", entry: "eth", upto: "all", f: a_headers_eth },
    Api { name: "LaxPacketHeaders::from_ethernet", m: "lax", fam: "struct", entry: "eth", upto: "all", f: a_lax_headers_eth },
    Api { name: "SlicedPacket::from_linux_sll", m: "strict", fam: "slice", entry: "sll", upto: "all", f: a_sliced_sll },
    Api { name: "LaxPacketHeaders::from_linux_sll", m: "lax", fam: "struct", entry: "sll", upto: "all", f: a_lax_headers_sll },
    Api { name: "SlicedPacket::from_ether_type", m: "strict", fam: "slice", entry: "ether", upto: "all", f: a_sliced_ether },
    Api { name: "LaxSlicedPacket::from_ether_type", m: "lax", fam: "slice", entry: "ether", upto: "all", f: a_lax_sliced_ether },
    Api { name: "PacketHeaders::from_ether_type", m: "strict", fam: "struct", entry: "ether", upto: "all", f: a_headers_ether },
    Api { name: "LaxPacketHeaders::from_ether_type", m: "lax", fam: "struct", entry: "ether", upto: "all", f: a_lax_headers_ether },
    Api { name: "SlicedPacket::from_ip", m: "strict", fam: "slice", entry: "ip", upto: "all", f: a_sliced_ip },
    Api { name: "LaxSlicedPacket::from_ip", m: "lax", fam: "slice", entry: "ip", upto: "all", f: a_lax_sliced_ip },
    Api { name: "PacketHeaders::from_ip_slice", m: "strict", fam: "struct", entry: "ip", upto: "all", f: a_headers_ip },
    Api { name: "LaxPacketHeaders::from_ip", m: "lax", fam: "struct", entry: "ip", upto: "all", f: a_lax_headers_ip },
    Api { name: "IpSlice::from_slice", m: "strict", fam: "slice", entry: "ip", upto: "ip", f: a_ipslice },
    Api { name: "LaxIpSlice::from_slice", m: "lax", fam: "slice", entry: "ip", upto: "ip", f: a_laxipslice },
    Api { name: "IpHeaders::from_slice", m: "strict", fam: "struct", entry: "ip", upto: "ip", f: a_iph },
    Api { name: "IpHeaders::from_slice_lax", m: "lax", fam: "struct", entry: "ip", upto: "ip", f: a_iph_lax },
    Api { name: "Ipv4Slice::from_slice", m: "strict", fam: "slice", entry: "ipv4", upto: "ip", f: a_ipv4slice },
    Api { name: "LaxIpv4Slice::from_slice", m: "lax", fam: "slice", entry: "ipv4", upto: "ip", f: a_laxipv4slice },
    Api { name: "IpHeaders::from_ipv4_slice", m: "strict", fam: "struct", entry: "ipv4", upto: "ip", f: a_iph4 },
    Api { name: "IpHeaders::from_ipv4_slice_lax", m: "lax", fam: "struct", entry: "ipv4", upto: "ip", f: a_iph4_lax },
    Api { name: "Ipv6Slice::from_slice", m: "strict", fam: "slice", entry: "ipv6", upto: "ip", f: a_ipv6slice },
    Api { name: "LaxIpv6Slice::from_slice", m: "lax", fam: "slice", entry: "ipv6", upto: "ip", f: a_laxipv6slice },
    Api { name: "IpHeaders::from_ipv6_slice", m: "strict", fam: "struct", entry: "ipv6", upto: "ip", f: a_iph6 },
    Api { name: "IpHeaders::from_ipv6_slice_lax", m: "lax", fam: "struct", entry: "ipv6", upto: "ip", f: a_iph6_lax },
];

pub struct Guards {
    pub a: GuardBuf,
    pub b: GuardBuf,
}
impl Guards {
    pub fn new(cap: usize) -> Guards {
        Guards { a: GuardBuf::new(cap), b: GuardBuf::new(cap) }
    }
}

fn run_at(api: &Api, b: &[u8], et: u16) -> Value {
    let r = catch_unwind(AssertUnwindSafe(|| {
        let c = Ctx::new(b);
        let r = (api.f)(&c, b, et);
        r.json(&c)
    }));
    match r {
        Ok(v) => v,
        Err(p) => {
            let msg = if let Some(s) = p.downcast_ref::<&str>() {
                s.to_string()
            } else if let Some(s) = p.downcast_ref::<String>() {
                s.clone()
            } else {
                "?".to_string()
            };
            json!({"v": "panic", "layers": [], "pay": no_pay(), "err": ErrP::none().json(), "oob": 0, "msg": msg})
        }
    }
}

/// One run of one API on `b` (slice starting `skip` bytes into the event's bytes): executed at two
/// placements (flush against a guard page behind / in front of the input, different poison);
/// `pl` says whether both placements produced the same projection.
pub fn run_api(g: &mut Guards, api: &Api, b: &[u8], et: u16, skip: usize) -> Value {
    crate::util::mark_api(api.name, api.m, api.fam);
    let r1 = {
        let s = g.a.place_end(b, 0xA5);
        run_at(api, s, et)
    };
    let r2 = {
        let s = g.b.place_start(b, 0x3C);
        run_at(api, s, et)
    };
    let same = r1 == r2;
    json!({"api": api.name, "m": api.m, "fam": api.fam, "entry": api.entry, "et": if api.entry == "ether" { et as i64 } else { -1 },
           "upto": api.upto, "skip": skip, "pl": if same { 1 } else { 0 }, "res": r1})
}

pub fn apis_for(entry: &str) -> impl Iterator<Item = &'static Api> + '_ {
    APIS.iter().filter(move |a| a.entry == entry)
}
