//! Driver for the setter / newtype machine (spec/Fields.tla, C14/C15): one adapter per length-taking API.
use crate::errp::cap;
use etherparse::*;
use serde_json::{json, Value};
use std::panic::{catch_unwind, AssertUnwindSafe};

const HUGE: i64 = 1073741823;

struct R {
    ok: bool,
    kind: &'static str,
    actual: i64,
    max: i64,
    enc: i64,
    unchanged: i64,
}
impl R {
    fn ok(enc: i64) -> R {
        R { ok: true, kind: "", actual: -1, max: -1, enc, unchanged: -1 }
    }
    fn vtb(e: &err::ValueTooBigError<usize>, unchanged: i64) -> R {
        let _ = format!("{} {:?}", e, e);
        R { ok: false, kind: "ValueTooBig", actual: cap(e.actual as i64), max: cap(e.max_allowed as i64), enc: -1, unchanged }
    }
    fn err(kind: &'static str, actual: usize, unchanged: i64) -> R {
        R { ok: false, kind, actual: cap(actual as i64), max: -1, enc: -1, unchanged }
    }
}
fn b2i(b: bool) -> i64 {
    if b { 1 } else { 0 }
}

fn run(api: &str, ctx: &[i64], v: i64) -> R {
    let huge = v == HUGE;
    let vu: usize = if huge { usize::MAX } else { v as usize };
    match api {
        "VlanId" => match VlanId::try_new(if huge { u16::MAX } else { v as u16 }) {
            Ok(x) => R::ok(if VlanId::try_from(v as u16).map(|y| y == x).unwrap_or(false) && u16::from(x) == x.value() { x.value() as i64 } else { -7 }),
            Err(e) => R { ok: false, kind: "ValueTooBig", actual: e.actual as i64, max: e.max_allowed as i64, enc: -1, unchanged: b2i(VlanId::try_from(v as u16).is_err()) },
        },
        "IpFragOffset" => match IpFragOffset::try_new(if huge { u16::MAX } else { v as u16 }) {
            Ok(x) => R::ok(if IpFragOffset::try_from(v as u16).map(|y| y == x).unwrap_or(false) && u16::from(x) == x.value() { x.value() as i64 } else { -7 }),
            Err(e) => R { ok: false, kind: "ValueTooBig", actual: e.actual as i64, max: e.max_allowed as i64, enc: -1, unchanged: b2i(IpFragOffset::try_from(v as u16).is_err()) },
        },
        "Ipv6FlowLabel" => {
            let a: u32 = if huge { u32::MAX } else { v as u32 };
            match Ipv6FlowLabel::try_new(a) {
                Ok(x) => R::ok(if Ipv6FlowLabel::try_from(a).map(|y| y == x).unwrap_or(false) && u32::from(x) == x.value() { x.value() as i64 } else { -7 }),
                Err(e) => R { ok: false, kind: "ValueTooBig", actual: cap(e.actual as i64), max: e.max_allowed as i64, enc: -1, unchanged: b2i(Ipv6FlowLabel::try_from(a).is_err()) },
            }
        }
        "VlanPcp" | "IpDscp" | "IpEcn" | "MacsecAn" | "MacsecShortLen" | "Qrv" => {
            let a: u8 = if huge { u8::MAX } else { v as u8 };
            macro_rules! nt {
                ($t:ty) => {
                    match <$t>::try_new(a) {
                        Ok(x) => R::ok(if <$t>::try_from(a).map(|y| y == x).unwrap_or(false) && u8::from(x) == x.value() { x.value() as i64 } else { -7 }),
                        Err(e) => R { ok: false, kind: "ValueTooBig", actual: e.actual as i64, max: e.max_allowed as i64, enc: -1, unchanged: b2i(<$t>::try_from(a).is_err()) },
                    }
                };
            }
            match api {
                "VlanPcp" => nt!(VlanPcp),
                "IpDscp" => nt!(IpDscp),
                "IpEcn" => nt!(IpEcn),
                "MacsecAn" => nt!(MacsecAn),
                "Qrv" => nt!(igmp::Qrv),
                _ => match MacsecShortLen::try_from(a) {
                    Ok(x) => R::ok(if MacsecShortLen::try_from_u8(a).map(|y| y == x).unwrap_or(false) && u8::from(x) == x.value() { x.value() as i64 } else { -7 }),
                    Err(e) => R { ok: false, kind: "ValueTooBig", actual: e.actual as i64, max: e.max_allowed as i64, enc: -1, unchanged: b2i(MacsecShortLen::try_from_u8(a) == Err(e)) },
                },
            }
        }
        "ipv4.set_payload_len" => {
            let mut h = Ipv4Header::new(7, 4, IpNumber(17), [1; 4], [2; 4]).unwrap();
            h.options = vec![1u8; ctx[0] as usize].as_slice().try_into().unwrap();
            let before = h.clone();
            match h.set_payload_len(vu) {
                Ok(()) => {
                    let b = h.to_bytes();
                    R::ok(u16::from_be_bytes([b[2], b[3]]) as i64)
                }
                Err(e) => R::vtb(&e, b2i(h == before)),
            }
        }
        "ipv6.set_payload_length" => {
            let mut h = Ipv6Header { traffic_class: 0, flow_label: Ipv6FlowLabel::ZERO, payload_length: 77, next_header: IpNumber(17), hop_limit: 4, source: [1; 16], destination: [2; 16] };
            let before = h.clone();
            match h.set_payload_length(vu) {
                Ok(()) => {
                    let b = h.to_bytes();
                    R::ok(u16::from_be_bytes([b[4], b[5]]) as i64)
                }
                Err(e) => R::vtb(&e, b2i(h == before)),
            }
        }
        "iph4.set_payload_len" => {
            let mut h = Ipv4Header::new(7, 4, IpNumber(17), [1; 4], [2; 4]).unwrap();
            h.options = vec![1u8; ctx[0] as usize].as_slice().try_into().unwrap();
            let exts = Ipv4Extensions { auth: if ctx[1] > 0 { Some(IpAuthHeader::new(IpNumber(17), 1, 2, &vec![0u8; ctx[1] as usize - 12]).unwrap()) } else { None } };
            let mut iph = IpHeaders::Ipv4(h, exts);
            let before = iph.clone();
            match iph.set_payload_len(vu) {
                Ok(()) => {
                    let mut w: Vec<u8> = vec![];
                    if let IpHeaders::Ipv4(h, _) = &iph {
                        h.write_raw(&mut w).unwrap();
                    }
                    R::ok(u16::from_be_bytes([w[2], w[3]]) as i64)
                }
                Err(e) => R::vtb(&e, b2i(iph == before)),
            }
        }
        "iph6.set_payload_len" => {
            let h = Ipv6Header { traffic_class: 0, flow_label: Ipv6FlowLabel::ZERO, payload_length: 77, next_header: IpNumber(17), hop_limit: 4, source: [1; 16], destination: [2; 16] };
            let mut exts = Ipv6Extensions::default();
            if ctx[0] > 0 {
                exts.destination_options = Some(Ipv6RawExtHeader::new_raw(IpNumber(17), &vec![0u8; ctx[0] as usize - 2]).unwrap());
            }
            let mut iph = IpHeaders::Ipv6(h, exts);
            let before = iph.clone();
            match iph.set_payload_len(vu) {
                Ok(()) => {
                    if let IpHeaders::Ipv6(h, _) = &iph {
                        let b = h.to_bytes();
                        R::ok(u16::from_be_bytes([b[4], b[5]]) as i64)
                    } else {
                        R::ok(-9)
                    }
                }
                Err(e) => R::vtb(&e, b2i(iph == before)),
            }
        }
        "udp.without_ipv4_checksum" => match UdpHeader::without_ipv4_checksum(1, 2, vu) {
            Ok(h) => R::ok(u16::from_be_bytes([h.to_bytes()[4], h.to_bytes()[5]]) as i64),
            Err(e) => R::vtb(&e, -1),
        },
        "udp.with_ipv4_checksum" => {
            let p = vec![0x5au8; vu];
            let ip = Ipv4Header::new(0, 4, IpNumber(17), [1; 4], [2; 4]).unwrap();
            match UdpHeader::with_ipv4_checksum(1, 2, &ip, &p) {
                Ok(h) => R::ok(u16::from_be_bytes([h.to_bytes()[4], h.to_bytes()[5]]) as i64),
                Err(e) => R::vtb(&e, -1),
            }
        }
        "udp.with_ipv6_checksum" => {
            let p = vec![0x5au8; vu];
            let ip = Ipv6Header { traffic_class: 0, flow_label: Ipv6FlowLabel::ZERO, payload_length: 0, next_header: IpNumber(17), hop_limit: 4, source: [1; 16], destination: [2; 16] };
            match UdpHeader::with_ipv6_checksum(1, 2, &ip, &p) {
                Ok(h) => R::ok(u16::from_be_bytes([h.to_bytes()[4], h.to_bytes()[5]]) as i64),
                Err(e) => R::vtb(&e, -1),
            }
        }
        "udp.calc_checksum_ipv4" => {
            let p = vec![0x5au8; vu];
            let h = UdpHeader { source_port: 1, destination_port: 2, length: (8 + vu) as u16, checksum: 0 };
            match h.calc_checksum_ipv4_raw([1; 4], [2; 4], &p) {
                Ok(_) => R::ok(-1),
                Err(e) => R::vtb(&e, -1),
            }
        }
        "tcp.calc_checksum_ipv4" => {
            let p = vec![0x5au8; vu];
            let mut h = TcpHeader::new(1, 2, 3, 4);
            h.options = TcpOptions::try_from_slice(&vec![1u8; ctx[0] as usize]).unwrap();
            match h.calc_checksum_ipv4_raw([1; 4], [2; 4], &p) {
                Ok(_) => R::ok(-1),
                Err(e) => R::vtb(&e, -1),
            }
        }
        // the slice types carry their own copies of the pseudo header length check
        "tcp.hslice.calc_checksum_ipv4" | "tcp.slice.calc_checksum_ipv4" => {
            let p = vec![0x5au8; vu];
            let mut h = TcpHeader::new(1, 2, 3, 4);
            h.options = TcpOptions::try_from_slice(&vec![1u8; ctx[0] as usize]).unwrap();
            let want = h.calc_checksum_ipv4_raw([1; 4], [2; 4], &p);
            let hb = h.to_bytes();
            if api == "tcp.hslice.calc_checksum_ipv4" {
                let s = TcpHeaderSlice::from_slice(&hb).unwrap();
                let ipb = Ipv4Header::new(0, 4, IpNumber(6), [1; 4], [2; 4]).unwrap().to_bytes();
                let ips = Ipv4HeaderSlice::from_slice(&ipb).unwrap();
                match (s.calc_checksum_ipv4_raw([1; 4], [2; 4], &p), s.calc_checksum_ipv4(&ips, &p)) {
                    (Ok(x), Ok(y)) => R::ok(if x == y && Ok(x) == want { -1 } else { -8 }),
                    (Err(e), Err(f)) if e == f => R::vtb(&e, -1),
                    _ => R::err("DoorsDiffer", 0, -1),
                }
            } else {
                let mut all = hb.to_vec();
                all.extend_from_slice(&p);
                match TcpSlice::from_slice(&all).unwrap().calc_checksum_ipv4([1; 4], [2; 4]) {
                    Ok(x) => R::ok(if Ok(x) == want { -1 } else { -8 }),
                    Err(e) => R::vtb(&e, -1),
                }
            }
        }
        "macsec.set_payload_len" => {
            let mut h = MacsecHeader { ptype: if ctx[0] == 1 { MacsecPType::Unmodified(EtherType(0x0800)) } else { MacsecPType::Modified }, endstation_id: true, scb: false,
                                       an: MacsecAn::try_from(3).unwrap(), short_len: MacsecShortLen::try_from(9).unwrap(), packet_nr: 5, sci: None };
            h.set_payload_len(vu);
            R::ok((h.to_bytes()[1] & 0x3f) as i64)
        }
        "auth.new" => match IpAuthHeader::new(IpNumber(6), 1, 2, &vec![7u8; vu]) {
            Ok(h) => {
                let b = h.to_bytes();
                R::ok(((b[1] as i64 + 2) * 4) - 12)
            }
            Err(err::ip_auth::IcvLenError::TooBig(n)) => R::err("TooBig", n, -1),
            Err(err::ip_auth::IcvLenError::Unaligned(n)) => R::err("Unaligned", n, -1),
        },
        "auth.set_raw_icv" => {
            let mut h = IpAuthHeader::new(IpNumber(6), 1, 2, &[9u8; 8]).unwrap();
            let before = h.clone();
            match h.set_raw_icv(&vec![7u8; vu]) {
                Ok(()) => {
                    let b = h.to_bytes();
                    // the stored ICV must be exactly the new one (no stale bytes of the old value)
                    let good = h.raw_icv() == &vec![7u8; vu][..] && b.len() == 12 + vu;
                    R::ok(if good { ((b[1] as i64 + 2) * 4) - 12 } else { -7 })
                }
                Err(err::ip_auth::IcvLenError::TooBig(n)) => R::err("TooBig", n, b2i(h == before)),
                Err(err::ip_auth::IcvLenError::Unaligned(n)) => R::err("Unaligned", n, b2i(h == before)),
            }
        }
        "rawext.new_raw" => match Ipv6RawExtHeader::new_raw(IpNumber(6), &vec![7u8; vu]) {
            Ok(h) => {
                let b = h.to_bytes();
                R::ok((b[1] as i64 + 1) * 8 - 2)
            }
            Err(err::ipv6_exts::ExtPayloadLenError::TooSmall(n)) => R::err("TooSmall", n, -1),
            Err(err::ipv6_exts::ExtPayloadLenError::TooBig(n)) => R::err("TooBig", n, -1),
            Err(err::ipv6_exts::ExtPayloadLenError::Unaligned(n)) => R::err("Unaligned", n, -1),
        },
        "rawext.set_payload" => {
            let mut h = Ipv6RawExtHeader::new_raw(IpNumber(6), &[9u8; 14]).unwrap();
            let before = h.clone();
            match h.set_payload(&vec![7u8; vu]) {
                Ok(()) => {
                    let b = h.to_bytes();
                    let good = h.payload() == &vec![7u8; vu][..] && b.len() == 2 + vu;
                    R::ok(if good { (b[1] as i64 + 1) * 8 - 2 } else { -7 })
                }
                Err(err::ipv6_exts::ExtPayloadLenError::TooSmall(n)) => R::err("TooSmall", n, b2i(h == before)),
                Err(err::ipv6_exts::ExtPayloadLenError::TooBig(n)) => R::err("TooBig", n, b2i(h == before)),
                Err(err::ipv6_exts::ExtPayloadLenError::Unaligned(n)) => R::err("Unaligned", n, b2i(h == before)),
            }
        }
        "ipv4.set_options" => {
            let mut h = Ipv4Header::new(7, 4, IpNumber(17), [1; 4], [2; 4]).unwrap();
            h.options = [3u8; 8].as_slice().try_into().unwrap();
            let before = h.clone();
            #[allow(deprecated)]
            match h.set_options(&vec![7u8; vu]) {
                Ok(()) => {
                    let b = h.to_bytes();
                    let good = b.len() == 20 + vu && b[20..].iter().all(|x| *x == 7);
                    R::ok(if good { ((b[0] & 0xf) as i64) * 4 - 20 } else { -7 })
                }
                Err(e) => R::err("BadOptionsLen", e.bad_len, b2i(h == before)),
            }
        }
        "ipv4options.try_from" => match Ipv4Options::try_from(&vec![7u8; vu][..]) {
            Ok(o) => R::ok(o.len() as i64),
            Err(e) => R::err("BadOptionsLen", e.bad_len, -1),
        },
        "arp.new.hw" | "arp.new.proto" => {
            let a = vec![1u8; vu];
            let r = if api == "arp.new.hw" {
                ArpPacket::new(ArpHardwareId(1), EtherType(0x0800), ArpOperation(1), &a, &[1, 2, 3, 4], &a, &[5, 6, 7, 8])
            } else {
                ArpPacket::new(ArpHardwareId(1), EtherType(0x0800), ArpOperation(1), &[1; 6], &a, &[2; 6], &a)
            };
            match r {
                Ok(p) => {
                    let b = p.to_bytes();
                    R::ok(if api == "arp.new.hw" { b[4] as i64 } else { b[5] as i64 })
                }
                Err(e) => {
                    let _ = format!("{} {:?}", e, e);
                    R::err("ArpAddrTooBig", vu, -1)
                }
            }
        }
        "arp.set_hw_addrs" | "arp.set_protocol_addrs" => {
            let mut p = ArpPacket::new(ArpHardwareId(1), EtherType(0x0800), ArpOperation(1), &[1; 6], &[2; 4], &[3; 6], &[4; 4]).unwrap();
            let before = p.clone();
            let a = vec![0x5Au8; vu];
            let b = vec![0xA5u8; (v + ctx[0]) as usize];
            if api == "arp.set_hw_addrs" {
                match p.set_hw_addrs(&a, &b) {
                    Ok(()) => {
                        let by = p.to_bytes();
                        let good = p.sender_hw_addr() == &a[..] && p.target_hw_addr() == &b[..] && p.sender_protocol_addr() == [2; 4] && p.target_protocol_addr() == [4; 4]
                            && by.len() == 8 + 2 * vu + 8 && by[8..8 + vu] == a[..] && by[8 + vu + 4..8 + 2 * vu + 4] == b[..];
                        R::ok(if good { by[4] as i64 } else { -7 })
                    }
                    Err(e) => {
                        let _ = format!("{} {:?}", e, e);
                        match e {
                            err::arp::ArpHwAddrError::LenNonMatching(x, y) => R { ok: false, kind: "LenNonMatching", actual: x as i64, max: y as i64, enc: -1, unchanged: b2i(p == before) },
                            err::arp::ArpHwAddrError::LenTooBig(x) => R::err("LenTooBig", x, b2i(p == before)),
                        }
                    }
                }
            } else {
                match p.set_protocol_addrs(&a, &b) {
                    Ok(()) => {
                        let by = p.to_bytes();
                        let good = p.sender_protocol_addr() == &a[..] && p.target_protocol_addr() == &b[..] && p.sender_hw_addr() == [1; 6] && p.target_hw_addr() == [3; 6]
                            && by.len() == 8 + 12 + 2 * vu && by[14..14 + vu] == a[..] && by[14 + vu + 6..] == b[..];
                        R::ok(if good { by[5] as i64 } else { -7 })
                    }
                    Err(e) => {
                        let _ = format!("{} {:?}", e, e);
                        match e {
                            err::arp::ArpProtoAddrError::LenNonMatching(x, y) => R { ok: false, kind: "LenNonMatching", actual: x as i64, max: y as i64, enc: -1, unchanged: b2i(p == before) },
                            err::arp::ArpProtoAddrError::LenTooBig(x) => R::err("LenTooBig", x, b2i(p == before)),
                        }
                    }
                }
            }
        }
        "macsec.short_len.from_len" => R::ok(MacsecShortLen::from_len(vu).value() as i64),
        "ipv6.set_dscp" | "ipv6.set_ecn" => {
            let mut h = Ipv6Header { traffic_class: ctx[0] as u8, flow_label: Ipv6FlowLabel::try_new(0xF_FFFF).unwrap(), payload_length: 0xFFFF, next_header: IpNumber(255), hop_limit: 255, source: [255; 16], destination: [255; 16] };
            let before = h.clone();
            if api == "ipv6.set_dscp" {
                h.set_dscp(IpDscp::try_new(v as u8).unwrap());
            } else {
                h.set_ecn(IpEcn::try_new(v as u8).unwrap());
            }
            // the getters decode the octet, nothing else in the header moves
            let good = h.dscp().value() == h.traffic_class >> 2 && h.ecn().value() == h.traffic_class & 3
                && Ipv6Header { traffic_class: before.traffic_class, ..h.clone() } == before;
            // the octet as it is encoded (version nibble | traffic class | flow label)
            let by = h.to_bytes();
            R::ok(if good { (((by[0] & 0x0f) << 4) | (by[1] >> 4)) as i64 } else { -7 })
        }
        "igmp.set_qrv" | "igmp.set_s_flag" | "igmp.set_flags" => {
            let mut h = igmp::MembershipQueryWithSourcesHeader { max_response_code: igmp::MaxResponseCode(0xff), group_address: igmp::GroupAddress::new([0xff; 4]),
                                                                 raw_byte_8: ctx[0] as u8, qqic: 0xff, num_of_sources: 0xffff };
            let before = h.clone();
            match api {
                "igmp.set_qrv" => h.set_qrv(igmp::Qrv::try_new(v as u8).unwrap()),
                "igmp.set_s_flag" => h.set_s_flag(v == 1),
                _ => h.set_flags(v as u8),
            }
            // getters decode the byte, nothing else moves; the byte as it is encoded
            let good = h.qrv().value() == h.raw_byte_8 & 7 && h.s_flag() == (h.raw_byte_8 & 8 != 0) && h.flags() == h.raw_byte_8 >> 4
                && igmp::MembershipQueryWithSourcesHeader { raw_byte_8: before.raw_byte_8, ..h.clone() } == before;
            let by = IgmpHeader::new(IgmpType::MembershipQueryWithSources(h)).to_bytes();
            R::ok(if good && by.len() == 12 { by[8] as i64 } else { -7 })
        }
        "igmp.max_resp_10th" => R::ok(igmp::MaxResponseCode(v as u8).as_10th_secs() as i64),
        "ipv4.payload_len" => {
            let mut h = Ipv4Header::new(0, 4, IpNumber(17), [1; 4], [2; 4]).unwrap();
            h.options = vec![1u8; ctx[0] as usize].as_slice().try_into().unwrap();
            h.total_len = v as u16;
            match h.payload_len() {
                Ok(x) => R::ok(x as i64),
                Err(e) => R { ok: false, kind: "LenError", actual: e.required_len as i64, max: e.len as i64, enc: -1,
                              unchanged: b2i(e.len_source == LenSource::Ipv4HeaderTotalLen && e.layer == err::Layer::Ipv4Packet && e.layer_start_offset == 0) },
            }
        }
        other => panic!("unknown api {}", other),
    }
}

pub fn run_case(id: &str, c: &Value) -> Value {
    let api = c["api"].as_str().unwrap().to_string();
    let ctx: Vec<i64> = c["ctx"].as_array().map(|a| a.iter().map(|x| x.as_i64().unwrap()).collect()).unwrap_or_default();
    let v = c["v"].as_i64().unwrap();
    let r = catch_unwind(AssertUnwindSafe(|| run(&api, &ctx, v)));
    match r {
        Ok(r) => json!({"ev": "set", "id": id, "api": api, "ctx": ctx, "v": v, "ok": if r.ok { 1 } else { 0 }, "kind": r.kind, "actual": r.actual, "max": r.max,
                        "enc": r.enc, "unchanged": r.unchanged}),
        Err(_) => json!({"ev": "panic", "id": id, "api": api}),
    }
}
