//! Guard-page buffers: the input is placed directly in front of / directly behind a
//! PROT_NONE page, so that any read past the end / before the start of the input faults.
use std::ptr;

pub struct GuardBuf {
    map: *mut u8,
    map_len: usize,
    page: usize,
}

unsafe impl Send for GuardBuf {}

impl GuardBuf {
    /// capacity: maximum input length that will be placed
    pub fn new(cap: usize) -> GuardBuf {
        let page = unsafe { libc::sysconf(libc::_SC_PAGESIZE) as usize };
        let data_pages = (cap + page - 1) / page + 1;
        let map_len = (data_pages + 2) * page;
        let map = unsafe {
            libc::mmap(ptr::null_mut(), map_len, libc::PROT_READ | libc::PROT_WRITE, libc::MAP_PRIVATE | libc::MAP_ANONYMOUS, -1, 0)
        };
        assert!(map != libc::MAP_FAILED, "mmap failed");
        let map = map as *mut u8;
        unsafe {
            // first and last page are inaccessible
            assert_eq!(0, libc::mprotect(map as *mut libc::c_void, page, libc::PROT_NONE));
            assert_eq!(0, libc::mprotect(map.add(map_len - page) as *mut libc::c_void, page, libc::PROT_NONE));
        }
        GuardBuf { map, map_len, page }
    }
    fn data_len(&self) -> usize {
        self.map_len - 2 * self.page
    }
    /// copy `b` so that it ends exactly at the trailing guard page; everything else is `poison`
    pub fn place_end(&mut self, b: &[u8], poison: u8) -> &[u8] {
        assert!(b.len() <= self.data_len());
        unsafe {
            let data = self.map.add(self.page);
            ptr::write_bytes(data, poison, self.data_len());
            let dst = data.add(self.data_len() - b.len());
            ptr::copy_nonoverlapping(b.as_ptr(), dst, b.len());
            std::slice::from_raw_parts(dst, b.len())
        }
    }
    /// copy `b` so that it starts exactly behind the leading guard page
    pub fn place_start(&mut self, b: &[u8], poison: u8) -> &[u8] {
        assert!(b.len() <= self.data_len());
        unsafe {
            let data = self.map.add(self.page);
            ptr::write_bytes(data, poison, self.data_len());
            ptr::copy_nonoverlapping(b.as_ptr(), data, b.len());
            std::slice::from_raw_parts(data, b.len())
        }
    }
}

impl Drop for GuardBuf {
    fn drop(&mut self) {
        unsafe {
            libc::munmap(self.map as *mut libc::c_void, self.map_len);
        }
    }
}
