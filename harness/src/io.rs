//! Driver for I/O faults (spec/IoFault.tla, C16) and reader-vs-slice agreement (C06, second half):
//! for a byte string and a header type: decode from the slice; read from a reader that fails after k bytes for
//! every k; write the decoded value into a writer that fails after k bytes for every k; write_to_slice into every
//! slice length; read_limited under every limit.
use etherparse::*;
use serde_json::{json, Value};
use std::io::{Cursor, Read, Seek, SeekFrom, Write};
use std::panic::{catch_unwind, AssertUnwindSafe};

/// reader over `data` that reports an I/O error once `fail_at` bytes have been handed out
pub struct FailReader<'a> {
    c: Cursor<&'a [u8]>,
    fail_at: usize,
    pub pulled: usize,
}
impl<'a> FailReader<'a> {
    pub fn new(data: &'a [u8], fail_at: usize) -> FailReader<'a> {
        FailReader { c: Cursor::new(data), fail_at, pulled: 0 }
    }
}
impl<'a> Read for FailReader<'a> {
    fn read(&mut self, buf: &mut [u8]) -> std::io::Result<usize> {
        let left = self.fail_at.saturating_sub(self.c.position() as usize);
        if left == 0 && !buf.is_empty() {
            return Err(std::io::Error::new(std::io::ErrorKind::Other, "injected read fault"));
        }
        let n = buf.len().min(left);
        let r = self.c.read(&mut buf[..n])?;
        if r == 0 && n > 0 {
            return Err(std::io::Error::new(std::io::ErrorKind::UnexpectedEof, "eof"));
        }
        self.pulled += r;
        Ok(r)
    }
}
impl<'a> Seek for FailReader<'a> {
    fn seek(&mut self, pos: SeekFrom) -> std::io::Result<u64> {
        self.c.seek(pos)
    }
}

/// writer that accepts `cap` bytes, then reports ONE fault (a transient fault, like a socket that times out once); whatever is
/// offered after the fault is accepted and recorded too, so an operation that carries on after a failed write (or swallows the
/// error of one piece) shows up as more than `cap` bytes / not a prefix / a success
pub struct FailWriter {
    pub got: Vec<u8>,
    pub cap: usize,
    pub fired: bool,
    /// at most this many bytes are accepted per write() call (io::Write allows short writes)
    pub chunk: usize,
}
impl FailWriter {
    pub fn new(cap: usize) -> FailWriter {
        FailWriter { got: vec![], cap, fired: false, chunk: usize::MAX }
    }
    pub fn with_chunk(cap: usize, chunk: usize) -> FailWriter {
        FailWriter { got: vec![], cap, fired: false, chunk }
    }
}
impl Write for FailWriter {
    fn write(&mut self, buf: &[u8]) -> std::io::Result<usize> {
        if self.fired {
            let n = buf.len().min(self.chunk);
            self.got.extend(&buf[..n]);
            return Ok(n);
        }
        let left = self.cap - self.got.len();
        if left == 0 && !buf.is_empty() {
            self.fired = true;
            return Err(std::io::Error::new(std::io::ErrorKind::Other, "injected write fault"));
        }
        let n = buf.len().min(left).min(self.chunk);
        self.got.extend(&buf[..n]);
        Ok(n)
    }
    fn flush(&mut self) -> std::io::Result<()> {
        Ok(())
    }
}

pub enum Any {
    Eth(Ethernet2Header),
    Sll(LinuxSllHeader),
    Vlan(SingleVlanHeader),
    Macsec(MacsecHeader),
    Arp(ArpPacket),
    Ipv4(Ipv4Header),
    Auth(IpAuthHeader),
    Ipv6(Ipv6Header),
    Udp(UdpHeader),
    Tcp(TcpHeader),
    Frag(Ipv6FragmentHeader),
    RawExt(Ipv6RawExtHeader),
    Icmp4(Icmpv4Header),
    Icmp6(Icmpv6Header),
    /// IP header + extension headers (multi-part reader / writer)
    Iph(IpHeaders),
    /// extension header chains behind a given first ip number: (headers, first, next)
    Ext6(Ipv6Extensions, u8, u8),
    Ext4(Ipv4Extensions, u8, u8),
}
/// ip number that announces the first extension header of the current "ext4" / "ext6" case
pub static START: std::sync::atomic::AtomicU8 = std::sync::atomic::AtomicU8::new(0);
fn start() -> IpNumber {
    IpNumber(START.load(std::sync::atomic::Ordering::Relaxed))
}

thread_local! {
    /// the fields of the last length error a decoder returned (layer, required, available, source, offset): the reader's report is
    /// compared with the slice decoder's report on the same bytes
    static LAST_LEN: std::cell::RefCell<Vec<Value>> = std::cell::RefCell::new(vec![]);
}
fn note_len(e: &crate::errp::ErrP) {
    LAST_LEN.with(|l| *l.borrow_mut() = vec![json!(e.layer), json!(crate::errp::cap(e.req)), json!(crate::errp::cap(e.len)), json!(e.src), json!(crate::errp::cap(e.off))]);
}
fn take_len() -> Vec<Value> {
    LAST_LEN.with(|l| std::mem::take(&mut *l.borrow_mut()))
}

/// error class: "len", "io" or "con:<canonical name>"
fn con(e: crate::errp::ErrP) -> String {
    if e.kind == "len" {
        note_len(&e);
    }
    match e.kind {
        "len" => "len".to_string(),
        "con" => format!("con:{}", e.name),
        other => other.to_string(),
    }
}

impl Any {
    pub fn bytes(&self) -> Vec<u8> {
        match self {
            Any::Eth(h) => h.to_bytes().to_vec(),
            Any::Sll(h) => h.to_bytes().to_vec(),
            Any::Vlan(h) => h.to_bytes().to_vec(),
            Any::Macsec(h) => h.to_bytes().to_vec(),
            Any::Arp(h) => h.to_bytes().to_vec(),
            Any::Ipv4(h) => h.to_bytes().to_vec(),
            Any::Auth(h) => h.to_bytes().to_vec(),
            Any::Ipv6(h) => h.to_bytes().to_vec(),
            Any::Udp(h) => h.to_bytes().to_vec(),
            Any::Tcp(h) => h.to_bytes().to_vec(),
            Any::Frag(h) => h.to_bytes().to_vec(),
            Any::RawExt(h) => h.to_bytes().to_vec(),
            Any::Icmp4(h) => h.to_bytes().to_vec(),
            Any::Icmp6(h) => h.to_bytes().to_vec(),
            Any::Iph(h) => {
                let mut v: Vec<u8> = vec![];
                let _ = h.write(&mut v);
                v
            }
            // the encoding, followed by the ip number behind the chain (so that "same value" includes it)
            Any::Ext6(h, first, next) => {
                let mut v: Vec<u8> = vec![];
                let _ = h.write(&mut v, IpNumber(*first));
                v.push(*next);
                v
            }
            Any::Ext4(h, first, next) => {
                let mut v: Vec<u8> = vec![];
                let _ = h.write(&mut v, IpNumber(*first));
                v.push(*next);
                v
            }
        }
    }
    pub fn write<W: Write>(&self, w: &mut W) -> std::io::Result<()> {
        match self {
            Any::Eth(h) => h.write(w),
            Any::Sll(h) => h.write(w),
            Any::Vlan(h) => h.write(w),
            Any::Macsec(h) => h.write(w),
            Any::Arp(h) => h.write(w),
            Any::Ipv4(h) => h.write_raw(w),
            Any::Auth(h) => h.write(w),
            Any::Ipv6(h) => h.write(w),
            Any::Udp(h) => h.write(w),
            Any::Tcp(h) => h.write(w),
            Any::Frag(h) => h.write(w),
            Any::RawExt(h) => h.write(w),
            Any::Icmp4(h) => h.write(w),
            Any::Icmp6(h) => h.write(w),
            Any::Iph(h) => h.write(w).map_err(|e| match e {
                err::ip::HeadersWriteError::Io(e) => e,
                _ => std::io::Error::new(std::io::ErrorKind::InvalidData, "content"),
            }),
            Any::Ext6(h, first, _) => h.write(w, IpNumber(*first)).map_err(|e| match e {
                err::ipv6_exts::HeaderWriteError::Io(e) => e,
                _ => std::io::Error::new(std::io::ErrorKind::InvalidData, "content"),
            }),
            Any::Ext4(h, first, _) => h.write(w, IpNumber(*first)).map_err(|e| match e {
                err::ipv4_exts::HeaderWriteError::Io(e) => e,
                _ => std::io::Error::new(std::io::ErrorKind::InvalidData, "content"),
            }),
        }
    }
    /// Some((ok, bytes left unwritten | required_len, len)) for the types that offer write_to_slice
    pub fn write_to_slice(&self, buf: &mut [u8]) -> Option<Result<usize, (usize, usize, usize, i64)>> {
        // the same error converted to the packet level error of the builder: it must still name the required length
        let conv = |e: &err::SliceWriteSpaceError| match err::packet::BuildSliceWriteError::from(e.clone()) { err::packet::BuildSliceWriteError::Space(n) => n as i64, _ => -1 };
        match self {
            Any::Eth(h) => Some(h.write_to_slice(buf).map(|r| r.len()).map_err(|e| (e.required_len, e.len, e.layer_start_offset, conv(&e)))),
            Any::Sll(h) => Some(h.write_to_slice(buf).map(|r| r.len()).map_err(|e| (e.required_len, e.len, e.layer_start_offset, conv(&e)))),
            _ => None,
        }
    }
    pub fn from_slice(ty: &str, b: &[u8]) -> Result<(Any, usize), String> {
        use crate::errp::ToErrP;
        let used = |rest: &[u8]| b.len() - rest.len();
        match ty {
            "eth" => Ethernet2Header::from_slice(b).map(|(h, r)| (Any::Eth(h), used(r))).map_err(|e| con(e.errp())),
            "sll" => LinuxSllHeader::from_slice(b).map(|(h, r)| (Any::Sll(h), used(r))).map_err(|e| con(e.errp())),
            "vlan" => SingleVlanHeader::from_slice(b).map(|(h, r)| (Any::Vlan(h), used(r))).map_err(|e| con(e.errp())),
            "macsec" => MacsecHeader::from_slice(b).map(|h| { let n = h.header_len(); (Any::Macsec(h), n) }).map_err(|e| con(e.errp())),
            "arp" => ArpPacket::from_slice(b).map(|h| { let n = h.packet_len(); (Any::Arp(h), n) }).map_err(|e| con(e.errp())),
            "ipv4" => Ipv4Header::from_slice(b).map(|(h, r)| (Any::Ipv4(h), used(r))).map_err(|e| con(e.errp())),
            "auth" => IpAuthHeader::from_slice(b).map(|(h, r)| (Any::Auth(h), used(r))).map_err(|e| con(e.errp())),
            "ipv6" => Ipv6Header::from_slice(b).map(|(h, r)| (Any::Ipv6(h), used(r))).map_err(|e| con(e.errp())),
            "udp" => UdpHeader::from_slice(b).map(|(h, r)| (Any::Udp(h), used(r))).map_err(|e| con(e.errp())),
            "tcp" => TcpHeader::from_slice(b).map(|(h, r)| (Any::Tcp(h), used(r))).map_err(|e| con(e.errp())),
            "frag" => Ipv6FragmentHeader::from_slice(b).map(|(h, r)| (Any::Frag(h), used(r))).map_err(|e| con(e.errp())),
            "rawext" => Ipv6RawExtHeader::from_slice(b).map(|(h, r)| (Any::RawExt(h), used(r))).map_err(|e| con(e.errp())),
            "icmp4" => Icmpv4Header::from_slice(b).map(|(h, r)| (Any::Icmp4(h), used(r))).map_err(|e| con(e.errp())),
            "icmp6" => Icmpv6Header::from_slice(b).map(|(h, r)| (Any::Icmp6(h), used(r))).map_err(|e| con(e.errp())),
            "iph" => IpHeaders::from_slice(b).map(|(h, p)| (Any::Iph(h), (p.payload.as_ptr() as usize) - (b.as_ptr() as usize))).map_err(|e| con(e.errp())),
            "ext6" => Ipv6Extensions::from_slice(start(), b).map(|(h, n, r)| (Any::Ext6(h, start().0, n.0), used(r))).map_err(|e| match e {
                err::ipv6_exts::HeaderSliceError::Len(_) => "len".to_string(),
                err::ipv6_exts::HeaderSliceError::Content(_) => "con:ext".to_string(),
            }),
            "ext4" => Ipv4Extensions::from_slice(start(), b).map(|(h, n, r)| (Any::Ext4(h, start().0, n.0), used(r))).map_err(|e| match e {
                err::ip_auth::HeaderSliceError::Len(_) => "len".to_string(),
                err::ip_auth::HeaderSliceError::Content(_) => "con:ext".to_string(),
            }),
            other => panic!("unknown type {}", other),
        }
    }
    pub fn read<R: Read + Seek>(ty: &str, r: &mut R) -> Result<Any, String> {
        use crate::errp::ToErrP;
        use err::*;
        let io = |_e: std::io::Error| "io".to_string();
        match ty {
            "eth" => Ethernet2Header::read(r).map(Any::Eth).map_err(io),
            "sll" => LinuxSllHeader::read(r).map(Any::Sll).map_err(|e| match e { ReadError::Io(_) => "io".into(), ReadError::LinuxSll(c) => con(c.errp()), ReadError::Len(_) => "len".into(), _ => "other".into() }),
            "vlan" => SingleVlanHeader::read(r).map(Any::Vlan).map_err(io),
            "macsec" => MacsecHeader::read(r).map(Any::Macsec).map_err(|e| match e { macsec::HeaderReadError::Io(_) => "io".into(), macsec::HeaderReadError::Content(c) => con(c.errp()) }),
            "arp" => ArpPacket::read(r).map(Any::Arp).map_err(io),
            "ipv4" => Ipv4Header::read(r).map(Any::Ipv4).map_err(|e| match e { ipv4::HeaderReadError::Io(_) => "io".into(), ipv4::HeaderReadError::Content(c) => con(c.errp()) }),
            "auth" => IpAuthHeader::read(r).map(Any::Auth).map_err(|e| match e { ip_auth::HeaderReadError::Io(_) => "io".into(), ip_auth::HeaderReadError::Content(c) => con(c.errp()) }),
            "ipv6" => Ipv6Header::read(r).map(Any::Ipv6).map_err(|e| match e { ipv6::HeaderReadError::Io(_) => "io".into(), ipv6::HeaderReadError::Content(c) => con(c.errp()) }),
            "udp" => UdpHeader::read(r).map(Any::Udp).map_err(io),
            "tcp" => TcpHeader::read(r).map(Any::Tcp).map_err(|e| match e { tcp::HeaderReadError::Io(_) => "io".into(), tcp::HeaderReadError::Content(c) => con(c.errp()) }),
            "frag" => Ipv6FragmentHeader::read(r).map(Any::Frag).map_err(io),
            "rawext" => Ipv6RawExtHeader::read(r).map(Any::RawExt).map_err(io),
            "icmp4" => Icmpv4Header::read(r).map(Any::Icmp4).map_err(io),
            "icmp6" => Icmpv6Header::read(r).map(Any::Icmp6).map_err(io),
            "iph" => IpHeaders::read(r).map(|(h, _)| Any::Iph(h)).map_err(|e| match e {
                ip::HeaderReadError::Io(_) => "io".into(),
                ip::HeaderReadError::Len(l) => con(l.errp()),
                ip::HeaderReadError::Content(c) => con(c.errp()),
            }),
            "ext6" => Ipv6Extensions::read(r, start()).map(|(h, n)| Any::Ext6(h, start().0, n.0)).map_err(|e| match e {
                ipv6_exts::HeaderReadError::Io(_) => "io".to_string(),
                ipv6_exts::HeaderReadError::Content(_) => "con:ext".to_string(),
            }),
            "ext4" => Ipv4Extensions::read(r, start()).map(|(h, n)| Any::Ext4(h, start().0, n.0)).map_err(|e| match e {
                ip_auth::HeaderReadError::Io(_) => "io".to_string(),
                ip_auth::HeaderReadError::Content(_) => "con:ext".to_string(),
            }),
            other => panic!("unknown type {}", other),
        }
    }
    /// read_limited where the type offers it: Ok / "io" / "len:<required>:<len>" / content
    pub fn read_limited<R: Read + Seek>(ty: &str, r: &mut io::LimitedReader<R>) -> Option<Result<Any, String>> {
        use crate::errp::ToErrP;
        use err::io::LimitedReadError as L;
        let lim = |e: L| match e { L::Io(_) => "io".to_string(), L::Len(l) => format!("len:{}:{}", l.required_len, l.len) };
        match ty {
            "frag" => Some(Ipv6FragmentHeader::read_limited(r).map(Any::Frag).map_err(lim)),
            "rawext" => Some(Ipv6RawExtHeader::read_limited(r).map(Any::RawExt).map_err(lim)),
            "auth" => Some(IpAuthHeader::read_limited(r).map(Any::Auth).map_err(|e| match e {
                err::ip_auth::HeaderLimitedReadError::Io(_) => "io".to_string(),
                err::ip_auth::HeaderLimitedReadError::Len(l) => format!("len:{}:{}", l.required_len, l.len),
                err::ip_auth::HeaderLimitedReadError::Content(c) => con(c.errp()),
            })),
            _ => None,
        }
    }
}

/// Ipv6Header::skip_* helpers on the bytes behind `first`: slice versions, and reader versions under a reader failing after k bytes
fn skips(b: &[u8], first: IpNumber) -> Value {
    let lenerr = |e: &err::LenError| json!(["err", e.required_len, e.len, e.layer_start_offset, if e.layer == err::Layer::Ipv6ExtHeader && e.len_source == LenSource::Slice { 1 } else { 0 }]);
    let all = match Ipv6Header::skip_all_header_extensions_in_slice(b, first) {
        Ok((n, rest)) => json!(["ok", n.0, b.len() - rest.len(), (rest.as_ptr() as usize).wrapping_sub(b.as_ptr() as usize), 1]),
        Err(e) => lenerr(&e),
    };
    let one = match Ipv6Header::skip_header_extension_in_slice(b, first) {
        Ok((n, rest)) => json!(["ok", n.0, b.len() - rest.len(), (rest.as_ptr() as usize).wrapping_sub(b.as_ptr() as usize), 1]),
        Err(e) => lenerr(&e),
    };
    let mut all_r = vec![];
    let mut one_r = vec![];
    for k in 0..=b.len() {
        let mut r = FailReader::new(b, k);
        match Ipv6Header::skip_all_header_extensions(&mut r, first) {
            Ok(n) => all_r.push(json!([k, "ok", n.0, r.c.position()])),
            Err(_) => all_r.push(json!([k, "io", -1, -1])),
        }
        let mut r = FailReader::new(b, k);
        match Ipv6Header::skip_header_extension(&mut r, first) {
            Ok(n) => one_r.push(json!([k, "ok", n.0, r.c.position()])),
            Err(_) => one_r.push(json!([k, "io", -1, -1])),
        }
    }
    json!({"has": 1, "skippable": if Ipv6Header::is_skippable_header_extension(first) { 1 } else { 0 }, "all": all, "one": one, "all_r": all_r, "one_r": one_r})
}

/// the LimitedReader state machine driven directly: calls = [n] (read_exact of n bytes) or [-1] (start_layer);
/// after every call: [result kind, read_len, max_len, layer_offset, bytes pulled from the underlying reader, error: required_len, len, offset, source+layer ok]
fn run_limited(id: &str, c: &Value) -> Value {
    let max = c["max"].as_u64().unwrap() as usize;
    let avail = c["avail"].as_u64().unwrap() as usize;
    let data: Vec<u8> = (0..avail).map(|i| (i * 7 + 1) as u8).collect();
    let mut lr = io::LimitedReader::new(Cursor::new(&data[..]), max, LenSource::Ipv6HeaderPayloadLen, 40, err::Layer::Ipv6ExtHeader);
    let mut obs = vec![];
    let mut dead = false;
    let mut got: Vec<u8> = vec![];
    for call in c["calls"].as_array().unwrap() {
        let n = call[0].as_i64().unwrap();
        if dead {
            break;
        }
        let r = catch_unwind(AssertUnwindSafe(|| {
            if n < 0 {
                lr.start_layer(err::Layer::IpAuthHeader);
                ("ok", -1, -1, -1, 1)
            } else {
                let mut buf = vec![0u8; n as usize];
                match lr.read_exact(&mut buf) {
                    Ok(()) => {
                        got.extend(&buf);
                        ("ok", -1, -1, -1, 1)
                    }
                    Err(err::io::LimitedReadError::Io(_)) => ("io", -1, -1, -1, 1),
                    Err(err::io::LimitedReadError::Len(e)) => ("len", e.required_len as i64, e.len as i64, e.layer_start_offset as i64,
                                                              if e.len_source == LenSource::Ipv6HeaderPayloadLen && e.layer == lr.layer() { 1 } else { 0 }),
                }
            }
        }));
        match r {
            Err(_) => {
                obs.push(json!(["panic", -1, -1, -1, -1, -1, -1, -1, -1]));
                dead = true;
            }
            Ok((k, req, len, off, ok)) => {
                // (after an I/O error the position of the underlying reader is the reader's business)
                obs.push(json!([k, lr.read_len(), lr.max_len(), lr.layer_offset(), got.len(), req, len, off, ok]));
                if k == "io" {
                    dead = true;
                }
            }
        }
    }
    let prefix = got[..] == data[..got.len().min(data.len())];
    json!({"ev": "lr", "id": id, "type": "lr", "max": max, "avail": avail, "calls": c["calls"], "obs": obs, "prefix": if prefix { 1 } else { 0 }})
}

pub fn run_case(id: &str, c: &Value) -> Value {
    if c["type"] == "lr" {
        return run_limited(id, c);
    }
    let ty = c["type"].as_str().unwrap().to_string();
    let b: Vec<u8> = c["bytes"].as_array().unwrap().iter().map(|x| x.as_u64().unwrap() as u8).collect();
    let first = c.get("start").and_then(|x| x.as_u64()).unwrap_or(0) as u8;
    START.store(first, std::sync::atomic::Ordering::Relaxed);
    let r = catch_unwind(AssertUnwindSafe(|| {
        let sk = if ty == "ext6" { skips(&b, IpNumber(first)) } else { json!({"has": 0, "skippable": -1, "all": [], "one": [], "all_r": [], "one_r": []}) };
        take_len();
        let sl = Any::from_slice(&ty, &b);
        let slen = take_len();
        let mut rlen: Vec<Value> = vec![];
        let (sl_k, sl_re, sl_used) = match &sl {
            Ok((h, used)) => ("ok".to_string(), h.bytes(), *used as i64),
            Err(e) => (e.clone(), vec![], -1),
        };
        // reader failing after k bytes, k = 0..=len
        let mut reads = vec![];
        for k in 0..=b.len() {
            let mut r = FailReader::new(&b, k);
            let res = Any::read(&ty, &mut r);
            let l = take_len();
            if k == b.len() {
                rlen = l;
            }
            let pos = r.c.position() as i64;
            match res {
                Ok(h) => reads.push(json!([k, "ok", pos, if h.bytes() == sl_re { 1 } else { 0 }])),
                Err(e) => reads.push(json!([k, e, pos, -1])),
            }
        }
        // writer failing after k bytes; write_to_slice into every slice length (with canaries behind the slice)
        let mut writes = vec![];
        let mut slices = vec![];
        let mut limited = vec![];
        if let Ok((h, _)) = &sl {
            let full = h.bytes();
            for k in 0..=full.len() + 1 {
                // the writer takes everything it is offered / one byte / three bytes per call (short writes are legal for io::Write)
                for chunk in [usize::MAX, 1, 3] {
                    let mut w = FailWriter::with_chunk(k, chunk);
                    let ok = h.write(&mut w).is_ok();
                    let prefix = w.got.len() <= full.len() && w.got[..] == full[..w.got.len()];
                    writes.push(json!([k, if ok { 1 } else { 0 }, w.got.len(), if prefix { 1 } else { 0 }]));
                }
                let mut buf = vec![0xC7u8; k + 4];
                if let Some(res) = h.write_to_slice(&mut buf[..k]) {
                    let canary = buf[k..].iter().all(|x| *x == 0xC7);
                    match res {
                        Ok(left) => {
                            let n = k - left;
                            slices.push(json!([k, 1, n, k, if canary { 1 } else { 0 }, if buf[..n] == full[..] { 1 } else { 0 }, -1]));
                        }
                        Err((req, len, _off, conv)) => {
                            // whatever was written into the slice must still be a prefix of the encoding (or untouched)
                            let pre = (0..k).all(|i| buf[i] == 0xC7 || buf[i] == full[i]);
                            slices.push(json!([k, 0, req, len, if canary { 1 } else { 0 }, if pre { 1 } else { 0 }, conv]));
                        }
                    }
                }
                // length limited reader with limit k over the complete bytes (+ trailing data)
                let mut data = full.clone();
                data.extend([0xEE; 4]);
                let mut lr = io::LimitedReader::new(Cursor::new(&data[..]), k, LenSource::Slice, 0, err::Layer::Ipv6ExtHeader);
                if let Some(res) = Any::read_limited(&ty, &mut lr) {
                    let read_len = lr.read_len() as i64;
                    let pulled = lr.take_reader().position() as i64;
                    match res {
                        Ok(x) => limited.push(json!([k, "ok", pulled, read_len, if x.bytes() == full { 1 } else { 0 }])),
                        Err(e) => limited.push(json!([k, e, pulled, read_len, -1])),
                    }
                }
            }
        }
        json!({"ev": "io", "id": id, "type": ty, "bytes": b, "start": first, "skips": sk, "slice": {"k": sl_k, "re": sl_re, "used": sl_used}, "slen": slen, "rlen": rlen, "reads": reads, "writes": writes,
               "slices": slices, "limited": limited})
    }));
    r.unwrap_or_else(|_| json!({"ev": "panic", "id": id, "type": ty}))
}
