//! Projection of every error type of the crate onto one abstract record:
//! kind (none/len/con), and for length errors layer, required_len, len, len_source,
//! layer_start_offset; for content errors a canonical class name and the offending value.
use etherparse::err;
use etherparse::err::{Layer, LenError};
use etherparse::LenSource;
use serde_json::{json, Value};

pub fn src_s(s: LenSource) -> &'static str {
    match s {
        LenSource::Slice => "Slice",
        LenSource::MacsecShortLength => "MacsecShortLength",
        LenSource::Ipv4HeaderTotalLen => "Ipv4HeaderTotalLen",
        LenSource::Ipv6HeaderPayloadLen => "Ipv6HeaderPayloadLen",
        LenSource::UdpHeaderLen => "UdpHeaderLen",
        LenSource::TcpHeaderLen => "TcpHeaderLen",
        LenSource::ArpAddrLengths => "ArpAddrLengths",
    }
}

/// variant name of a layer (explicit: independent of how the crate renders it)
pub fn layer_s(l: Layer) -> String {
    match l {
        Layer::LinuxSllHeader => "LinuxSllHeader",
        Layer::Ethernet2Header => "Ethernet2Header",
        Layer::EtherPayload => "EtherPayload",
        Layer::VlanHeader => "VlanHeader",
        Layer::MacsecHeader => "MacsecHeader",
        Layer::MacsecPacket => "MacsecPacket",
        Layer::IpHeader => "IpHeader",
        Layer::Ipv4Header => "Ipv4Header",
        Layer::Ipv4Packet => "Ipv4Packet",
        Layer::IpAuthHeader => "IpAuthHeader",
        Layer::Ipv6Header => "Ipv6Header",
        Layer::Ipv6Packet => "Ipv6Packet",
        Layer::Ipv6ExtHeader => "Ipv6ExtHeader",
        Layer::Ipv6HopByHopHeader => "Ipv6HopByHopHeader",
        Layer::Ipv6DestOptionsHeader => "Ipv6DestOptionsHeader",
        Layer::Ipv6RouteHeader => "Ipv6RouteHeader",
        Layer::Ipv6FragHeader => "Ipv6FragHeader",
        Layer::UdpHeader => "UdpHeader",
        Layer::UdpPayload => "UdpPayload",
        Layer::TcpHeader => "TcpHeader",
        Layer::Icmpv4 => "Icmpv4",
        Layer::Icmpv4Timestamp => "Icmpv4Timestamp",
        Layer::Icmpv4TimestampReply => "Icmpv4TimestampReply",
        Layer::Icmpv6 => "Icmpv6",
        Layer::Igmp => "Igmp",
        Layer::Arp => "Arp",
    }
    .to_string()
}

#[derive(Clone, Debug, PartialEq)]
pub struct ErrP {
    pub kind: &'static str,
    pub layer: String,
    pub req: i64,
    pub len: i64,
    pub src: &'static str,
    pub off: i64,
    pub name: &'static str,
    pub val: i64,
    pub stop: String,
}

impl ErrP {
    pub fn none() -> ErrP {
        ErrP { kind: "none", layer: String::new(), req: -1, len: -1, src: "", off: -1, name: "", val: -1, stop: String::new() }
    }
    pub fn con(name: &'static str, val: i64) -> ErrP {
        ErrP { kind: "con", name, val, ..ErrP::none() }
    }
    pub fn io() -> ErrP {
        ErrP { kind: "io", ..ErrP::none() }
    }
    pub fn with_stop(mut self, stop: String) -> ErrP {
        self.stop = stop;
        self
    }
    pub fn json(&self) -> Value {
        json!({"kind": self.kind, "layer": self.layer, "req": cap(self.req), "len": cap(self.len), "src": self.src,
               "off": cap(self.off), "name": self.name, "val": self.val, "stop": self.stop})
    }
}

/// TLC integers are 32 bit and its JSON reader wraps silently: never emit anything >= 2^31.
pub fn cap(v: i64) -> i64 {
    if v >= (1i64 << 31) - 1 { (1i64 << 31) - 1 } else { v }
}

pub trait ToErrP {
    fn errp(&self) -> ErrP;
}

impl ToErrP for LenError {
    fn errp(&self) -> ErrP {
        ErrP {
            kind: "len",
            layer: layer_s(self.layer),
            req: self.required_len as i64,
            len: self.len as i64,
            src: src_s(self.len_source),
            off: self.layer_start_offset as i64,
            ..ErrP::none()
        }
    }
}
impl ToErrP for err::ip::HeaderError {
    fn errp(&self) -> ErrP {
        use err::ip::HeaderError::*;
        match self {
            UnsupportedIpVersion { version_number } => ErrP::con("ip.version", *version_number as i64),
            Ipv4HeaderLengthSmallerThanHeader { ihl } => ErrP::con("ipv4.ihl", *ihl as i64),
        }
    }
}
impl ToErrP for err::ipv4::HeaderError {
    fn errp(&self) -> ErrP {
        use err::ipv4::HeaderError::*;
        match self {
            UnexpectedVersion { version_number } => ErrP::con("ipv4.version", *version_number as i64),
            HeaderLengthSmallerThanHeader { ihl } => ErrP::con("ipv4.ihl", *ihl as i64),
        }
    }
}
impl ToErrP for err::ipv6::HeaderError {
    fn errp(&self) -> ErrP {
        use err::ipv6::HeaderError::*;
        match self {
            UnexpectedVersion { version_number } => ErrP::con("ipv6.version", *version_number as i64),
        }
    }
}
impl ToErrP for err::ip_auth::HeaderError {
    fn errp(&self) -> ErrP {
        ErrP::con("auth.zero", -1)
    }
}
impl ToErrP for err::ipv6_exts::HeaderError {
    fn errp(&self) -> ErrP {
        use err::ipv6_exts::HeaderError::*;
        match self {
            HopByHopNotAtStart => ErrP::con("ipv6ext.hbh", -1),
            IpAuth(a) => a.errp(),
        }
    }
}
impl ToErrP for err::tcp::HeaderError {
    fn errp(&self) -> ErrP {
        use err::tcp::HeaderError::*;
        match self {
            DataOffsetTooSmall { data_offset } => ErrP::con("tcp.doff", *data_offset as i64),
        }
    }
}
impl ToErrP for err::macsec::HeaderError {
    fn errp(&self) -> ErrP {
        use err::macsec::HeaderError::*;
        match self {
            UnexpectedVersion => ErrP::con("macsec.version", -1),
            InvalidUnmodifiedShortLen => ErrP::con("macsec.shortlen", -1),
        }
    }
}
impl ToErrP for err::linux_sll::HeaderError {
    fn errp(&self) -> ErrP {
        use err::linux_sll::HeaderError::*;
        match self {
            UnsupportedPacketTypeField { packet_type } => ErrP::con("sll.ptype", *packet_type as i64),
            UnsupportedArpHardwareId { arp_hardware_type } => ErrP::con("sll.hw", arp_hardware_type.0 as i64),
        }
    }
}
impl ToErrP for err::ip::HeadersError {
    fn errp(&self) -> ErrP {
        use err::ip::HeadersError::*;
        match self {
            Ip(e) => e.errp(),
            Ipv4Ext(e) => e.errp(),
            Ipv6Ext(e) => e.errp(),
        }
    }
}
impl ToErrP for err::ip_exts::HeaderError {
    fn errp(&self) -> ErrP {
        use err::ip_exts::HeaderError::*;
        match self {
            Ipv4Ext(e) => e.errp(),
            Ipv6Ext(e) => e.errp(),
        }
    }
}
impl ToErrP for err::packet::SliceError {
    fn errp(&self) -> ErrP {
        use err::packet::SliceError::*;
        match self {
            Len(l) => l.errp(),
            LinuxSll(e) => e.errp(),
            Macsec(e) => e.errp(),
            Ip(e) => e.errp(),
            Ipv4(e) => e.errp(),
            Ipv6(e) => e.errp(),
            Ipv4Exts(e) => e.errp(),
            Ipv6Exts(e) => e.errp(),
            Tcp(e) => e.errp(),
        }
    }
}
impl ToErrP for err::ip::SliceError {
    fn errp(&self) -> ErrP {
        use err::ip::SliceError::*;
        match self {
            Len(l) => l.errp(),
            IpHeaders(e) => e.errp(),
        }
    }
}
impl ToErrP for err::ip::HeadersSliceError {
    fn errp(&self) -> ErrP {
        use err::ip::HeadersSliceError::*;
        match self {
            Len(l) => l.errp(),
            Content(e) => e.errp(),
        }
    }
}
impl ToErrP for err::ip::LaxHeaderSliceError {
    fn errp(&self) -> ErrP {
        use err::ip::LaxHeaderSliceError::*;
        match self {
            Len(l) => l.errp(),
            Content(e) => e.errp(),
        }
    }
}
impl ToErrP for err::ipv4::SliceError {
    fn errp(&self) -> ErrP {
        use err::ipv4::SliceError::*;
        match self {
            Len(l) => l.errp(),
            Header(e) => e.errp(),
            Exts(e) => e.errp(),
        }
    }
}
impl ToErrP for err::ipv6::SliceError {
    fn errp(&self) -> ErrP {
        use err::ipv6::SliceError::*;
        match self {
            Len(l) => l.errp(),
            Header(e) => e.errp(),
            Exts(e) => e.errp(),
        }
    }
}
impl ToErrP for err::ipv4::HeaderSliceError {
    fn errp(&self) -> ErrP {
        use err::ipv4::HeaderSliceError::*;
        match self {
            Len(l) => l.errp(),
            Content(e) => e.errp(),
        }
    }
}
impl ToErrP for err::ipv6::HeaderSliceError {
    fn errp(&self) -> ErrP {
        use err::ipv6::HeaderSliceError::*;
        match self {
            Len(l) => l.errp(),
            Content(e) => e.errp(),
        }
    }
}
impl ToErrP for err::ipv6_exts::HeaderSliceError {
    fn errp(&self) -> ErrP {
        use err::ipv6_exts::HeaderSliceError::*;
        match self {
            Len(l) => l.errp(),
            Content(e) => e.errp(),
        }
    }
}
impl ToErrP for err::ip_exts::HeadersSliceError {
    fn errp(&self) -> ErrP {
        use err::ip_exts::HeadersSliceError::*;
        match self {
            Len(l) => l.errp(),
            Content(e) => e.errp(),
        }
    }
}
impl ToErrP for err::ip_auth::HeaderSliceError {
    fn errp(&self) -> ErrP {
        use err::ip_auth::HeaderSliceError::*;
        match self {
            Len(l) => l.errp(),
            Content(e) => e.errp(),
        }
    }
}
impl ToErrP for err::linux_sll::HeaderSliceError {
    fn errp(&self) -> ErrP {
        use err::linux_sll::HeaderSliceError::*;
        match self {
            Len(l) => l.errp(),
            Content(e) => e.errp(),
        }
    }
}
impl ToErrP for err::macsec::HeaderSliceError {
    fn errp(&self) -> ErrP {
        use err::macsec::HeaderSliceError::*;
        match self {
            Len(l) => l.errp(),
            Content(e) => e.errp(),
        }
    }
}
impl ToErrP for err::tcp::HeaderSliceError {
    fn errp(&self) -> ErrP {
        use err::tcp::HeaderSliceError::*;
        match self {
            Len(l) => l.errp(),
            Content(e) => e.errp(),
        }
    }
}

/// the catch-all error, read back through its accessor methods (not by matching on it)
impl ToErrP for err::FromSliceError {
    fn errp(&self) -> ErrP {
        if let Some(e) = self.len() { return e.errp(); }
        if let Some(e) = self.linux_sll() { return e.errp(); }
        if let Some(e) = self.macsec() { return e.errp(); }
        if let Some(e) = self.ip() { return e.errp(); }
        if let Some(e) = self.ip_auth() { return e.errp(); }
        if let Some(e) = self.ipv4() { return e.errp(); }
        if let Some(e) = self.ipv6() { return e.errp(); }
        if let Some(e) = self.ipv6_exts() { return e.errp(); }
        if let Some(e) = self.tcp() { return e.errp(); }
        ErrP::none()
    }
}

pub fn same_fault(a: &ErrP, b: &ErrP) -> bool {
    a.kind == b.kind && a.layer == b.layer && a.req == b.req && a.len == b.len && a.src == b.src && a.off == b.off && a.name == b.name && a.val == b.val
}

/// converting an error into the catch-all FromSliceError keeps what it says (C07: the report describes the real fault, also after the
/// conversions the crate offers); exactly one accessor answers
pub fn conv_keeps<E: ToErrP + Clone + Into<err::FromSliceError>>(e: &E) -> bool {
    let f: err::FromSliceError = e.clone().into();
    let s = format!("{} {:?}", f, f);
    std::hint::black_box(s.len());
    if let Some(src) = std::error::Error::source(&f) {
        std::hint::black_box(format!("{} {:?}", src, src).len());
    }
    let answers = [f.len().is_some(), f.linux_sll().is_some(), f.macsec().is_some(), f.ip().is_some(), f.ip_auth().is_some(), f.ipv4().is_some(), f.ipv6().is_some(),
                   f.ipv6_exts().is_some(), f.tcp().is_some()];
    answers.iter().filter(|x| **x).count() == 1 && same_fault(&f.errp(), &e.errp())
}

/// add_slice_offset moves a length error by the offset and leaves a content error alone
#[macro_export]
macro_rules! shift_keeps {
    ($e:expr) => {{
        let p = $crate::errp::ToErrP::errp($e);
        let q = $crate::errp::ToErrP::errp(&$e.clone().add_slice_offset(7));
        let mut want = p;
        if want.kind == "len" {
            want.off += 7;
        }
        $crate::errp::same_fault(&want, &q)
    }};
}
