//! Seeded generator of deliberately damaged packets for the recording direction
//! (impl -> spec): well formed stackings whose length fields are moved below / at / above
//! the true size, truncated at arbitrary points, with trailing bytes, plus pure noise.
use rand::{rngs::StdRng, Rng};

pub fn be16(v: usize) -> [u8; 2] {
    [(v >> 8) as u8, v as u8]
}

fn pick<T: Copy>(r: &mut StdRng, xs: &[T]) -> T {
    xs[r.gen_range(0..xs.len())]
}

pub fn gen_tcp_options(r: &mut StdRng, n: usize) -> Vec<u8> {
    // n bytes of option area built from plausible option encodings, padded with NOP/END
    let mut o: Vec<u8> = vec![];
    // a selective acknowledgement option of every plausible (and implausible) length that ends exactly with the option area:
    // whatever an iterator reads behind it lies behind the header (and, without payload, behind the input)
    if n >= 6 && r.gen_range(0..4) == 0 {
        let l = pick(r, &[10usize, 14, 18, 22, 26, 30, 34, 12, 16, 6, 38]);
        if l <= n {
            o.extend(std::iter::repeat(1u8).take(n - l));
            o.extend([5, l as u8]);
            o.extend((0..l - 2).map(|_| r.gen::<u8>()));
            return o;
        }
    }
    while o.len() < n {
        let left = n - o.len();
        match r.gen_range(0..10) {
            0 if left >= 4 => o.extend([2, 4, r.gen(), r.gen()]),
            1 if left >= 3 => o.extend([3, 3, r.gen_range(0..15)]),
            2 if left >= 2 => o.extend([4, 2]),
            3 if left >= 10 => {
                o.extend([8, 10]);
                o.extend((0..8).map(|_| r.gen::<u8>()));
            }
            4 if left >= 10 => {
                o.extend([5, 10]);
                o.extend((0..8).map(|_| r.gen::<u8>()));
            }
            5 => o.push(0),
            6 => o.push(r.gen()),
            _ => o.push(1),
        }
    }
    o.truncate(n);
    o
}

pub fn gen_transport(r: &mut StdRng) -> (u8, Vec<u8>) {
    let plen = if r.gen_range(0..3) == 0 { 0 } else { r.gen_range(0..12usize) };
    let payload: Vec<u8> = (0..plen).map(|_| r.gen()).collect();
    match r.gen_range(0..7) {
        0 => {
            // udp
            let tl = 8 + plen;
            let l = match r.gen_range(0..8) {
                0 => 0,
                1 => r.gen_range(1..8),
                2 => tl.saturating_sub(1),
                3 => tl + 1,
                4 => tl.saturating_sub(plen.min(3)),
                _ => tl,
            };
            let mut b = vec![r.gen(), r.gen(), r.gen(), r.gen()];
            b.extend(be16(l));
            b.extend([r.gen::<u8>(), r.gen::<u8>()]);
            b.extend(payload);
            (17, b)
        }
        1 => {
            // tcp
            let doff = pick(r, &[5u8, 5, 5, 6, 7, 4, 15, 8, 9, 10, 12]);
            let mut b: Vec<u8> = (0..20).map(|_| r.gen()).collect();
            b[12] = doff << 4 | (r.gen::<u8>() & 0xf);
            let opt = if doff > 5 { (doff as usize - 5) * 4 } else { 0 };
            if r.gen_range(0..8) != 0 {
                b.extend(gen_tcp_options(r, opt));
            }
            b.extend(payload);
            (6, b)
        }
        2 => {
            // icmp4
            let t = pick(r, &[8u8, 0, 3, 5, 11, 12, 13, 14, 99]);
            let mut b = vec![t, if r.gen_range(0..4) == 0 { r.gen_range(0..4) } else { 0 }, r.gen(), r.gen(), r.gen(), r.gen(), r.gen(), r.gen()];
            if (t == 13 || t == 14) && r.gen_range(0..3) > 0 {
                b.extend(vec![7u8; 12]);
                if r.gen_range(0..4) == 0 {
                    b.push(1);
                }
            } else {
                b.extend(payload);
            }
            (1, b)
        }
        3 => {
            let t = pick(r, &[128u8, 129, 1, 2, 3, 4, 133, 134, 135, 136, 137, 200]);
            let mut b = vec![t, if r.gen_range(0..4) == 0 { r.gen_range(0..4) } else { 0 }, r.gen(), r.gen(), r.gen(), r.gen(), r.gen(), r.gen()];
            if (133..=137).contains(&t) && r.gen_range(0..3) > 0 {
                // neighbour discovery: fixed part + options whose type / length-unit bytes are adversarial
                let fixed = match t { 133 => 0, 134 => 8, 135 | 136 => 16, _ => 32 };
                b.extend((0..fixed).map(|_| r.gen::<u8>()));
                for _ in 0..r.gen_range(0..4) {
                    let ty = pick(r, &[1u8, 2, 3, 4, 5, 6, 0, 255]);
                    let units = pick(r, &[0u8, 1, 1, 2, 4, 5, 31, 32, 33, 255]);
                    b.extend([ty, units]);
                    let n = (units as usize * 8).saturating_sub(2).min(r.gen_range(0..40));
                    b.extend((0..n).map(|_| r.gen::<u8>()));
                }
            } else {
                b.extend(payload);
            }
            (58, b)
        }
        4 => (r.gen_range(100..200), payload),
        5 => (pick(r, &[0u8, 43, 44, 51, 60, 59, 41, 4]), payload),
        _ => (pick(r, &[17u8, 6, 1, 58]), payload.into_iter().take(r.gen_range(0..9)).collect()),
    }
}

pub fn gen_auth(r: &mut StdRng, next: u8) -> Vec<u8> {
    let pl = pick(r, &[1u8, 1, 2, 0, 3]);
    let len = (pl as usize + 2) * 4;
    let mut b = vec![next, pl, r.gen(), r.gen(), 0, 0, 0, 1, 0, 0, 0, 2];
    b.resize(len.max(12), 0xaa);
    if r.gen_range(0..6) == 0 {
        b.truncate(r.gen_range(0..b.len()));
    }
    b
}

/// network layer and below: (ether type, bytes)
pub fn gen_net(r: &mut StdRng) -> (u16, Vec<u8>) {
    match r.gen_range(0..9) {
        0 => {
            // arp
            let (h, p) = pick(r, &[(6u8, 4u8), (6, 4), (0, 0), (1, 1), (20, 16), (255, 255), (6, 16)]);
            let mut b = vec![0, pick(r, &[1u8, 6, 32]), 8, 0, h, p, 0, pick(r, &[1u8, 2, 9])];
            b.extend((0..(2 * h as usize + 2 * p as usize)).map(|i| i as u8));
            if r.gen_range(0..3) == 0 {
                b.truncate(r.gen_range(0..b.len() + 1));
            } else if r.gen() {
                b.extend([9, 9, 9]);
            }
            (0x0806, b)
        }
        1 | 2 | 3 => {
            // ipv4
            let (mut proto, t) = gen_transport(r);
            let mut inner = t;
            if r.gen_range(0..4) == 0 {
                inner = {
                    let mut a = gen_auth(r, proto);
                    a.extend(inner);
                    a
                };
                proto = 51;
            }
            let ihl = pick(r, &[5u8, 5, 5, 6, 4, 15, 7, 0]);
            let hl = if ihl >= 5 { ihl as usize * 4 } else { 20 };
            let true_tl = hl + inner.len();
            let tl = match r.gen_range(0..9) {
                0 => hl.saturating_sub(1),
                1 => true_tl.saturating_sub(1),
                2 => true_tl + 1,
                3 => true_tl.saturating_sub(inner.len().min(3)),
                4 => hl,
                _ => true_tl,
            };
            let mut b = vec![0x40 | ihl, r.gen()];
            b.extend(be16(tl));
            let fr = match r.gen_range(0..6) {
                0 => [0x20u8, 0],
                1 => [0, 5],
                2 => [0x80 | 0x40, 0],
                _ => [0x40, 0],
            };
            b.extend([r.gen(), r.gen(), fr[0], fr[1], 64, proto, r.gen(), r.gen(), 10, 0, 0, 1, 10, 0, 0, 2]);
            while b.len() < hl {
                b.push(r.gen());
            }
            if r.gen_range(0..20) == 0 {
                b[0] = (pick(r, &[5u8, 6, 0, 15]) << 4) | ihl;
            }
            b.extend(inner);
            if r.gen_range(0..4) == 0 {
                b.extend([0xee, 0xee, 0xee]);
            }
            (0x0800, b)
        }
        4 | 5 | 6 => {
            // ipv6
            let (proto, t) = gen_transport(r);
            let mut inner = t;
            let mut next = proto;
            let n = pick(r, &[0usize, 0, 1, 1, 2, 3, 4, 7]);
            for _ in 0..n {
                let k = pick(r, &[0u8, 60, 43, 44, 51, 60, 43]);
                let mut e = match k {
                    44 => {
                        let f = match r.gen_range(0..3) {
                            0 => [0u8, 1],
                            1 => [0, 8],
                            _ => [0, 6],
                        };
                        vec![next, r.gen(), f[0], f[1], 0, 0, 0, 9]
                    }
                    51 => gen_auth(r, next),
                    _ => {
                        let l = r.gen_range(0..2u8);
                        let mut v = vec![next, l];
                        v.resize((l as usize + 1) * 8, 0);
                        v
                    }
                };
                if k != 51 && r.gen_range(0..8) == 0 {
                    let c = r.gen_range(0..e.len());
                    e.truncate(c);
                }
                e.extend(inner);
                inner = e;
                next = k;
            }
            let true_pl = inner.len();
            let pl = match r.gen_range(0..8) {
                0 => 0,
                1 => true_pl.saturating_sub(1),
                2 => true_pl + 1,
                3 => true_pl.saturating_sub(true_pl.min(9)),
                _ => true_pl,
            };
            let mut b = vec![0x60 | (r.gen::<u8>() & 0xf), r.gen(), r.gen(), r.gen()];
            b.extend(be16(pl));
            b.extend([next, 64]);
            b.extend((0..32).map(|i| i as u8 ^ 0x5a));
            if r.gen_range(0..20) == 0 {
                b[0] = pick(r, &[0x40u8, 0x45, 0x00, 0xf0]);
            }
            b.extend(inner);
            if r.gen_range(0..4) == 0 {
                b.extend([0xee, 0xee, 0xee]);
            }
            (0x86dd, b)
        }
        7 => (pick(r, &[0x0800u16, 0x86dd, 0x0806, 0x8100, 0x88e5]), (0..r.gen_range(0..6)).map(|_| r.gen()).collect()),
        _ => (r.gen_range(0x1000..0x2000), (0..r.gen_range(0..10)).map(|_| r.gen()).collect()),
    }
}

pub struct GenPkt {
    pub bytes: Vec<u8>,
    /// "eth" or "sll"
    pub link: &'static str,
    /// offset of the network layer (the part produced by gen_net) and its ether type
    pub net_off: usize,
    pub net_et: u16,
}

pub fn gen_packet(r: &mut StdRng) -> GenPkt {
    if r.gen_range(0..25) == 0 {
        let n = r.gen_range(0..80);
        return GenPkt { bytes: (0..n).map(|_| r.gen()).collect(), link: if r.gen() { "eth" } else { "sll" }, net_off: usize::MAX, net_et: 0 };
    }
    let (net_et, net) = gen_net(r);
    let net_len = net.len();
    let mut et = net_et;
    let mut inner = net;
    let n = pick(r, &[0usize, 0, 1, 1, 2, 3, 4]);
    for _ in 0..n {
        if r.gen_range(0..3) > 0 {
            let tp = pick(r, &[0x8100u16, 0x88a8, 0x9100]);
            let mut v = vec![r.gen(), r.gen()];
            v.extend(be16(et as usize));
            v.extend(inner);
            inner = v;
            et = tp;
        } else {
            let pt = r.gen_range(0..6); // 0..3 unmodified
            let (e, c) = match pt {
                3 => (true, false),
                4 => (true, true),
                5 => (false, true),
                _ => (false, false),
            };
            let sc = r.gen::<bool>();
            let unmod = !e && !c;
            let true_sl = inner.len() + if unmod { 2 } else { 0 };
            let sl = match r.gen_range(0..8) {
                0 => 1,
                1 => 2,
                2 => true_sl.saturating_sub(1),
                3 => true_sl + 1,
                4 | 5 => true_sl,
                _ => 0,
            };
            let sl = if sl > 63 { 0 } else { sl };
            let mut tci = (r.gen::<u8>() & 0x53) | if sc { 0x20 } else { 0 } | if e { 8 } else { 0 } | if c { 4 } else { 0 };
            if r.gen_range(0..20) == 0 {
                tci |= 0x80;
            }
            let mut v = vec![tci, sl as u8 | (r.gen::<u8>() & 0xc0), r.gen(), r.gen(), r.gen(), r.gen()];
            if sc {
                v.extend((0..8).map(|_| r.gen::<u8>()));
            }
            if unmod {
                v.extend(be16(et as usize));
            }
            v.extend(inner);
            inner = v;
            et = 0x88e5;
        }
    }
    let sll = r.gen_range(0..6) == 0;
    let mut b: Vec<u8>;
    if sll {
        let pt = if r.gen_range(0..10) == 0 { r.gen_range(5..12) } else { r.gen_range(0..5) };
        let hw = pick(r, &[1u16, 1, 1, 1, 770, 778, 803, 824, 6, 0]);
        let proto = if r.gen_range(0..8) == 0 { pick(r, &[1u16, 4, 0x00f5, 0x0a, 0x1d, 0xfa]) } else { et };
        b = vec![];
        b.extend(be16(pt));
        b.extend(be16(hw as usize));
        // link layer address length: usually 0..8, but the field is 16 bit wide (e.g. 20 for InfiniBand)
        b.extend(be16(if r.gen_range(0..4) == 0 { pick(r, &[9usize, 10, 11, 20, 255, 4096, 65535]) } else { r.gen_range(0..9) }));
        b.extend((0..8).map(|_| r.gen::<u8>()));
        b.extend(be16(proto as usize));
    } else {
        b = (0..12).map(|_| r.gen::<u8>()).collect();
        b.extend(be16(et as usize));
    }
    b.extend(inner);
    let net_off = b.len() - net_len;
    if r.gen_range(0..3) == 0 {
        let c = r.gen_range(0..b.len() + 1);
        b.truncate(c);
    }
    GenPkt { bytes: b, link: if sll { "sll" } else { "eth" }, net_off, net_et }
}
