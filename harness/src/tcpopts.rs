//! Driver for the TCP option machines (spec/TcpOpts.tla): the encoder (try_from_elements, set_options,
//! try_from_slice) and the iterator, logged per next() call.
use etherparse::*;
use serde_json::{json, Value};
use std::panic::{catch_unwind, AssertUnwindSafe};

fn be32(b: &[u8]) -> u32 {
    u32::from_be_bytes([b[0], b[1], b[2], b[3]])
}

pub fn elem_of(kind: u64, p: &[u8]) -> TcpOptionElement {
    use TcpOptionElement::*;
    match kind {
        1 => Noop,
        2 => MaximumSegmentSize(u16::from_be_bytes([p[0], p[1]])),
        3 => WindowScale(p[0]),
        4 => SelectiveAcknowledgementPermitted,
        5 => {
            let mut rest = [None; 3];
            for i in 0..3 {
                if p.len() >= 16 + 8 * i {
                    rest[i] = Some((be32(&p[8 + 8 * i..]), be32(&p[12 + 8 * i..])));
                }
            }
            SelectiveAcknowledgement((be32(&p[0..]), be32(&p[4..])), rest)
        }
        8 => Timestamp(be32(&p[0..]), be32(&p[4..])),
        _ => panic!("bad element kind"),
    }
}

/// element -> [kind, payload bytes] (the abstract form of the spec)
pub fn elem_json(e: &TcpOptionElement) -> Value {
    use TcpOptionElement::*;
    match e {
        Noop => json!({"k": "item", "kind": 1, "v": []}),
        MaximumSegmentSize(v) => json!({"k": "item", "kind": 2, "v": v.to_be_bytes()}),
        WindowScale(v) => json!({"k": "item", "kind": 3, "v": [v]}),
        SelectiveAcknowledgementPermitted => json!({"k": "item", "kind": 4, "v": []}),
        SelectiveAcknowledgement(first, rest) => {
            let mut v: Vec<u8> = vec![];
            v.extend(first.0.to_be_bytes());
            v.extend(first.1.to_be_bytes());
            let mut gap = false;
            for r in rest {
                match r {
                    Some((a, b)) => {
                        if gap {
                            // a block behind a hole cannot come from a wire encoding
                            v.push(0xff);
                        }
                        v.extend(a.to_be_bytes());
                        v.extend(b.to_be_bytes());
                    }
                    None => gap = true,
                }
            }
            json!({"k": "item", "kind": 5, "v": v})
        }
        Timestamp(a, b) => {
            let mut v: Vec<u8> = vec![];
            v.extend(a.to_be_bytes());
            v.extend(b.to_be_bytes());
            json!({"k": "item", "kind": 8, "v": v})
        }
    }
}

fn err_json(e: &TcpOptionReadError) -> Value {
    let _ = format!("{} {:?}", e, e);
    match e {
        TcpOptionReadError::UnexpectedEndOfSlice { option_id, expected_len, actual_len } => {
            json!({"k": "err", "e": "UnexpectedEndOfSlice", "a": option_id, "b": expected_len, "c": *actual_len as i64})
        }
        TcpOptionReadError::UnexpectedSize { option_id, size } => json!({"k": "err", "e": "UnexpectedSize", "a": option_id, "b": size, "c": -1}),
        TcpOptionReadError::UnknownId(id) => json!({"k": "err", "e": "UnknownId", "a": id, "b": -1, "c": -1}),
    }
}

/// iterate until the first None plus two more calls (StaysDead); one step = [result, rest length]
pub fn steps_of(mut it: TcpOptionsIterator) -> Vec<Value> {
    let mut steps = vec![];
    let mut nones = 0;
    let mut budget = 80;
    while nones < 3 && budget > 0 {
        budget -= 1;
        let r = it.next();
        let v = match &r {
            None => {
                nones += 1;
                json!({"k": "none"})
            }
            Some(Ok(e)) => elem_json(e),
            Some(Err(e)) => err_json(e),
        };
        steps.push(json!({"r": v, "rest": it.rest().len()}));
    }
    if budget == 0 {
        steps.push(json!({"r": {"k": "unbounded"}, "rest": -1}));
    }
    steps
}

pub fn run_case(id: &str, c: &Value) -> Value {
    let kind = c["kind"].as_str().unwrap();
    let r = catch_unwind(AssertUnwindSafe(|| {
        if kind == "raw" {
            let bytes: Vec<u8> = c["bytes"].as_array().unwrap().iter().map(|x| x.as_u64().unwrap() as u8).collect();
            let steps = steps_of(TcpOptionsIterator::from_slice(&bytes));
            // the same area inside a TCP header (only possible for multiples of 4 up to 40 bytes)
            let mut hdr_same = -1;
            let mut opts_same = -1;
            if bytes.len() % 4 == 0 && bytes.len() <= 40 {
                let mut h = vec![0u8; 20];
                h[12] = ((5 + bytes.len() / 4) as u8) << 4;
                h.extend(&bytes);
                let s = TcpHeaderSlice::from_slice(&h).unwrap();
                hdr_same = if steps_of(s.options_iterator()) == steps { 1 } else { 0 };
                let hh = s.to_header();
                opts_same = if hh.options.as_slice() == &bytes[..] && steps_of(hh.options_iterator()) == steps { 1 } else { 0 };
            }
            // try_from_slice: accepts up to 40 bytes, pads with zeros to a multiple of four
            let tfs = match TcpOptions::try_from_slice(&bytes) {
                Ok(o) => json!({"k": "ok", "bytes": o.as_slice(), "len": o.len(), "doff": o.data_offset(), "n": -1}),
                Err(TcpOptionWriteError::NotEnoughSpace(n)) => json!({"k": "err", "bytes": [], "len": -1, "doff": -1, "n": n}),
            };
            // every other door to the same option area must give the same value (or the same refusal)
            let base = TcpOptions::try_from_slice(&bytes);
            #[allow(deprecated)]
            let alt = {
                let mut ok = TcpOptions::try_from(&bytes[..]) == base;
                let mut h = TcpHeader::new(1, 2, 3, 4);
                let before = h.clone();
                match (h.set_options_raw(&bytes), &base) {
                    (Ok(()), Ok(o)) => {
                        ok &= h.options == *o && h.options_len() == o.len() && h.options() == o.as_slice() && o.is_empty() == (o.len() == 0)
                            && AsRef::<[u8]>::as_ref(o) == o.as_slice() && &o[..] == o.as_slice() && AsRef::<TcpOptions>::as_ref(o) == o;
                        let mut m = o.clone();
                        ok &= m.as_mut_slice().to_vec() == o.as_slice().to_vec() && AsMut::<[u8]>::as_mut(&mut m).to_vec() == o.as_slice().to_vec();
                    }
                    (Err(e), Err(f)) => ok &= e == *f && h == before,
                    _ => ok = false,
                }
                if bytes.is_empty() {
                    ok &= TcpOptions::new() == *base.as_ref().unwrap() && TcpOptions::default() == TcpOptions::new();
                }
                macro_rules! arr {
                    ($($n:expr),*) => { $( if bytes.len() == $n { let a: [u8; $n] = bytes[..].try_into().unwrap(); ok &= TcpOptions::from(a) == *base.as_ref().unwrap(); } )* };
                }
                arr!(4, 8, 12, 16, 20, 24, 28, 32, 36, 40);
                if bytes.len() % 4 == 0 && bytes.len() <= 40 {
                    macro_rules! arr4 {
                        ($($n:expr),*) => { $( if bytes.len() == $n { let a: [u8; $n] = bytes[..].try_into().unwrap(); ok &= Ipv4Options::from(a).as_slice() == &bytes[..] && Ipv4Options::try_from(&bytes[..]).map(|o| o == Ipv4Options::from(a)).unwrap_or(false); } )* };
                    }
                    arr4!(0, 4, 8, 12, 16, 20, 24, 28, 32, 36, 40);
                }
                if ok { 1 } else { 0 }
            };
            json!({"ev": "opts_raw", "id": id, "bytes": bytes, "steps": steps, "hdr_same": hdr_same, "opts_same": opts_same, "from_slice": tfs, "alt": alt})
        } else {
            let elems: Vec<TcpOptionElement> = c["elems"].as_array().unwrap().iter().map(|e| {
                let p: Vec<u8> = e[1].as_array().unwrap().iter().map(|x| x.as_u64().unwrap() as u8).collect();
                elem_of(e[0].as_u64().unwrap(), &p)
            }).collect();
            let res = match TcpOptions::try_from_elements(&elems) {
                Ok(o) => json!({"k": "ok", "bytes": o.as_slice(), "len": o.len(), "doff": o.data_offset(), "n": -1, "steps": steps_of(o.elements_iter())}),
                Err(TcpOptionWriteError::NotEnoughSpace(n)) => json!({"k": "err", "bytes": [], "len": -1, "doff": -1, "n": n, "steps": []}),
            };
            // through the header: set_options must agree and leave the header unchanged on error
            let mut h = TcpHeader::new(1, 2, 3, 4);
            h.options = TcpOptions::try_from_slice(&[1, 1, 1, 1]).unwrap();
            let before = h.clone();
            let set = match h.set_options(&elems) {
                Ok(()) => json!({"k": "ok", "bytes": h.options.as_slice(), "doff": h.data_offset(), "hlen": h.header_len(), "unchanged": -1}),
                Err(TcpOptionWriteError::NotEnoughSpace(n)) => json!({"k": "err", "bytes": [], "doff": n, "hlen": -1, "unchanged": if h == before { 1 } else { 0 }}),
            };
            let alt = if TcpOptions::try_from(&elems[..]) == TcpOptions::try_from_elements(&elems) { 1 } else { 0 };
            // set_options on headers that already carry options which DECODE to the same list but are other bytes
            // (garbage or more padding behind the end-of-list byte): the result does not depend on the history of the header
            let mut pre: Vec<Value> = vec![];
            if let Ok(o) = TcpOptions::try_from_elements(&elems) {
                for tail in [&[0u8, 0xde, 0xad, 0xbe][..], &[0, 0, 0, 0], &[0, 0, 0, 0, 0, 0, 0, 0]] {
                    let mut raw = o.as_slice().to_vec();
                    raw.extend_from_slice(tail);
                    let mut h = TcpHeader::new(1, 2, 3, 4);
                    if h.set_options_raw(&raw).is_ok() {
                        let r = h.set_options(&elems);
                        pre.push(json!({"ok": if r.is_ok() { 1 } else { 0 }, "bytes": h.options.as_slice(), "doff": h.data_offset(), "hlen": h.header_len()}));
                    }
                }
            }
            json!({"ev": "opts_elems", "id": id, "elems": c["elems"], "res": res, "set": set, "alt": alt, "pre": pre})
        }
    }));
    r.unwrap_or_else(|_| json!({"ev": "panic", "id": id}))
}
