//! Driver for the PacketBuilder typestate machine (spec/Builder.tla, C10): follows one path of builder calls,
//! writes through all three sinks, logs sizes, bytes and errors.
use etherparse::*;
use serde_json::{json, Value};
use std::panic::{catch_unwind, AssertUnwindSafe};

pub const SRC_MAC: [u8; 6] = [0x02, 0x11, 0x22, 0x33, 0x44, 0x55];
pub const DST_MAC: [u8; 6] = [0x06, 0xa1, 0xa2, 0xa3, 0xa4, 0xa5];
pub const SRC4: [u8; 4] = [192, 168, 7, 1];
pub const DST4: [u8; 4] = [10, 255, 0, 254];
pub const SRC6: [u8; 16] = [0x20, 1, 0xd, 0xb8, 0, 0, 0, 0, 0xff, 0xfe, 0, 1, 2, 3, 4, 5];
pub const DST6: [u8; 16] = [0xfe, 0x80, 0, 0, 0, 0, 0, 0, 9, 8, 7, 6, 5, 4, 3, 2];
pub const TTL: u8 = 61;
pub const SPORT: u16 = 0xC001;
pub const DPORT: u16 = 443;
pub const VID_OUTER: u16 = 0x0ABC;
pub const VID_INNER: u16 = 0x0123;
pub const SEQ: u32 = 0x89ABCDEF;
pub const ACKN: u32 = 0x10203040;
pub const WIN: u16 = 0xFEDC;
pub const URGP: u16 = 0x0BAD;
pub const ICMP_ID: u16 = 0x4242;
pub const ICMP_SEQ: u16 = 0x0717;

fn b2i(b: bool) -> i64 {
    if b { 1 } else { 0 }
}

fn ext_raw(len: usize, fill: u8) -> Ipv6RawExtHeader {
    Ipv6RawExtHeader::new_raw(IpNumber(0), &vec![fill; len - 2]).unwrap()
}

fn ip_headers(cfg: &Value) -> IpHeaders {
    let net = cfg["net"].as_str().unwrap();
    // the supplied base header either names something stale (0) or ALREADY names the final protocol although the extension headers
    // are not linked yet (even payload lengths): the builder has to link the chain in both cases
    let tr = cfg["tr"].as_str().unwrap_or("");
    let fin: u8 = if tr.starts_with("udp") { 17 } else if tr.starts_with("tcp") { 6 } else if tr.starts_with("icmp4") { 1 } else if tr.starts_with("icmp6") { 58 }
                  else { cfg["last"].as_u64().unwrap_or(0) as u8 };
    let base = IpNumber(if cfg["plen"].as_u64().unwrap_or(1) % 2 == 0 { fin } else { 0 });
    if net == "ip4" {
        let mut h = Ipv4Header::new(0, TTL, base, SRC4, DST4).unwrap();
        h.identification = 0x7788;
        h.dont_fragment = true;
        h.dscp = IpDscp::try_new(45).unwrap();
        h.ecn = IpEcn::try_new(2).unwrap();
        h.options = vec![1u8; cfg["opts"].as_u64().unwrap() as usize].as_slice().try_into().unwrap();
        let exts = Ipv4Extensions { auth: if cfg["auth"].as_u64().unwrap() == 1 { Some(IpAuthHeader::new(IpNumber(0), 0x01020304, 0x0a0b0c0d, &[0x77; 8]).unwrap()) } else { None } };
        IpHeaders::Ipv4(h, exts)
    } else {
        let h = Ipv6Header { traffic_class: 0x5a, flow_label: Ipv6FlowLabel::try_new(0xabcde).unwrap(), payload_length: 0, next_header: base, hop_limit: TTL, source: SRC6, destination: DST6 };
        let mut e = Ipv6Extensions::default();
        let slots: Vec<&str> = cfg["exts"].as_array().unwrap().iter().map(|x| x.as_str().unwrap()).collect();
        if slots.contains(&"hbh") {
            e.hop_by_hop_options = Some(ext_raw(8, 1));
        }
        if slots.contains(&"dst") {
            e.destination_options = Some(ext_raw(16, 2));
        }
        if slots.contains(&"route") {
            e.routing = Some(Ipv6RoutingExtensions { routing: ext_raw(8, 3), final_destination_options: if slots.contains(&"fdst") { Some(ext_raw(24, 6)) } else { None } });
        }
        if slots.contains(&"frag") {
            e.fragment = Some(Ipv6FragmentHeader::new(IpNumber(0), IpFragOffset::try_new(0).unwrap(), false, 0x01020304));
        }
        if slots.contains(&"auth") {
            e.auth = Some(IpAuthHeader::new(IpNumber(0), 7, 9, &[5, 5, 5, 5]).unwrap());
        }
        IpHeaders::Ipv6(h, e)
    }
}

enum Final {
    Udp(PacketBuilderStep<UdpHeader>),
    Tcp(PacketBuilderStep<TcpHeader>),
    Icmp4(PacketBuilderStep<Icmpv4Header>),
    Icmp6(PacketBuilderStep<Icmpv6Header>),
    Raw(PacketBuilderStep<IpHeaders>, u8),
    Arp(PacketBuilderStep<ArpPacket>),
}

fn arp_packet() -> ArpPacket {
    ArpPacket::new(ArpHardwareId::ETHERNET, EtherType::IPV4, ArpOperation::REQUEST, &SRC_MAC, &SRC4, &[0; 6], &DST4).unwrap()
}

fn build(cfg: &Value) -> Final {
    let link = cfg["link"].as_str().unwrap();
    let vlan = cfg["vlan"].as_u64().unwrap();
    let net = cfg["net"].as_str().unwrap();
    let ip: PacketBuilderStep<IpHeaders> = match (link, vlan) {
        ("eth", 0) => {
            let b = PacketBuilder::ethernet2(SRC_MAC, DST_MAC);
            match net {
                "ipv4" => b.ipv4(SRC4, DST4, TTL),
                "ipv6" => b.ipv6(SRC6, DST6, TTL),
                "arp" => return Final::Arp(b.arp(arp_packet())),
                _ => b.ip(ip_headers(cfg)),
            }
        }
        ("eth", v) => {
            let b = PacketBuilder::ethernet2(SRC_MAC, DST_MAC);
            let b = if v == 1 {
                b.single_vlan(VlanId::try_new(VID_INNER).unwrap())
            } else if v == 2 {
                b.double_vlan(VlanId::try_new(VID_OUTER).unwrap(), VlanId::try_new(VID_INNER).unwrap())
            } else if v == 4 {
                // vlan(VlanHeader::Double) supplied by the caller, ether types left as placeholders (the builder has to fill in both)
                b.vlan(VlanHeader::Double(DoubleVlanHeader {
                    outer: SingleVlanHeader { pcp: VlanPcp::try_new(3).unwrap(), drop_eligible_indicator: false, vlan_id: VlanId::try_new(VID_OUTER).unwrap(), ether_type: EtherType(0) },
                    inner: SingleVlanHeader { pcp: VlanPcp::try_new(5).unwrap(), drop_eligible_indicator: true, vlan_id: VlanId::try_new(VID_INNER).unwrap(), ether_type: EtherType(0) },
                }))
            } else {
                // vlan(VlanHeader) with explicit pcp / dei
                b.vlan(VlanHeader::Single(SingleVlanHeader { pcp: VlanPcp::try_new(5).unwrap(), drop_eligible_indicator: true, vlan_id: VlanId::try_new(VID_INNER).unwrap(), ether_type: EtherType(0) }))
            };
            match net {
                "ipv4" => b.ipv4(SRC4, DST4, TTL),
                "ipv6" => b.ipv6(SRC6, DST6, TTL),
                "arp" => return Final::Arp(b.arp(arp_packet())),
                _ => b.ip(ip_headers(cfg)),
            }
        }
        ("sll", _) => {
            // the address length field may exceed the 8 bytes the header holds (e.g. 20 byte InfiniBand addresses): payload lengths 1 and 9
            let alen = if matches!(cfg["plen"].as_u64(), Some(1) | Some(9)) { 20 } else { 6 };
            let b = PacketBuilder::linux_sll(LinuxSllPacketType::OTHERHOST, alen, [1, 2, 3, 4, 5, 6, 7, 8]);
            match net {
                "ipv4" => b.ipv4(SRC4, DST4, TTL),
                "ipv6" => b.ipv6(SRC6, DST6, TTL),
                "arp" => return Final::Arp(b.arp(arp_packet())),
                _ => b.ip(ip_headers(cfg)),
            }
        }
        _ => match net {
            "ipv4" => PacketBuilder::ipv4(SRC4, DST4, TTL),
            "ipv6" => PacketBuilder::ipv6(SRC6, DST6, TTL),
            _ => PacketBuilder::ip(ip_headers(cfg)),
        },
    };
    match cfg["tr"].as_str().unwrap() {
        "udp" => Final::Udp(ip.udp(SPORT, DPORT)),
        "tcp" => {
            let fl = cfg["tcp_flags"].as_u64().unwrap();
            let mut t = ip.tcp(SPORT, DPORT, SEQ, WIN);
            if fl & 256 != 0 { t = t.ns(); }
            if fl & 128 != 0 { t = t.cwr(); }
            if fl & 64 != 0 { t = t.ece(); }
            if fl & 32 != 0 { t = t.urg(URGP); }
            if fl & 16 != 0 { t = t.ack(ACKN); }
            if fl & 8 != 0 { t = t.psh(); }
            if fl & 4 != 0 { t = t.rst(); }
            if fl & 2 != 0 { t = t.syn(); }
            if fl & 1 != 0 { t = t.fin(); }
            let on = cfg["tcp_opts"].as_u64().unwrap() as usize;
            if on == 12 {
                t = t.options(&[TcpOptionElement::MaximumSegmentSize(1400), TcpOptionElement::Noop, TcpOptionElement::WindowScale(7), TcpOptionElement::SelectiveAcknowledgementPermitted]).unwrap();
            } else if on == 28 {
                // a selective acknowledgement whose blocks do not fill the slots from the front: every block given must be sent
                t = t.options(&[TcpOptionElement::SelectiveAcknowledgement((1, 2), [None, Some((3, 4)), Some((5, 6))]), TcpOptionElement::Noop]).unwrap();
            } else if on > 0 {
                t = t.options_raw(&vec![1u8; on]).unwrap();
            }
            Final::Tcp(t)
        }
        "tcphdr" => {
            let mut h = TcpHeader::new(SPORT, DPORT, SEQ, WIN);
            h.syn = true;
            h.checksum = 0x1111; // must be replaced by the builder
            Final::Tcp(ip.tcp_header(h))
        }
        "icmp4echo" => Final::Icmp4(ip.icmpv4_echo_request(ICMP_ID, ICMP_SEQ)),
        "icmp4reply" => Final::Icmp4(ip.icmpv4_echo_reply(ICMP_ID, ICMP_SEQ)),
        "icmp4raw" => Final::Icmp4(ip.icmpv4_raw(253, 7, [9, 8, 7, 6])),
        "icmp4typed" => Final::Icmp4(ip.icmpv4(Icmpv4Type::TimeExceeded(icmpv4::TimeExceededCode::TtlExceededInTransit))),
        "icmp6echo" => Final::Icmp6(ip.icmpv6_echo_request(ICMP_ID, ICMP_SEQ)),
        "icmp6reply" => Final::Icmp6(ip.icmpv6_echo_reply(ICMP_ID, ICMP_SEQ)),
        "icmp6raw" => Final::Icmp6(ip.icmpv6_raw(200, 3, [1, 2, 3, 4])),
        "icmp6typed" => Final::Icmp6(ip.icmpv6(Icmpv6Type::PacketTooBig { mtu: 1280 })),
        _ => Final::Raw(ip, cfg["last"].as_u64().unwrap() as u8),
    }
}

fn werr(e: &err::packet::BuildWriteError) -> Value {
    use err::packet::BuildWriteError::*;
    let _ = format!("{} {:?}", e, e);
    match e {
        Io(_) => json!({"k": "io", "actual": -1, "max": -1}),
        PayloadLen(v) => json!({"k": "PayloadLen", "actual": crate::errp::cap(v.actual as i64), "max": crate::errp::cap(v.max_allowed as i64)}),
        Ipv4Exts(_) => json!({"k": "Ipv4Exts", "actual": -1, "max": -1}),
        Ipv6Exts(_) => json!({"k": "Ipv6Exts", "actual": -1, "max": -1}),
        Icmpv6InIpv4 => json!({"k": "Icmpv6InIpv4", "actual": -1, "max": -1}),
        ArpHeaderNotMatch => json!({"k": "ArpHeaderNotMatch", "actual": -1, "max": -1}),
    }
}
fn serr(e: &err::packet::BuildSliceWriteError) -> Value {
    use err::packet::BuildSliceWriteError::*;
    let _ = format!("{} {:?}", e, e);
    match e {
        Space(required) => json!({"k": "Space", "actual": *required as i64, "max": -1}),
        PayloadLen(v) => json!({"k": "PayloadLen", "actual": crate::errp::cap(v.actual as i64), "max": crate::errp::cap(v.max_allowed as i64)}),
        Ipv4Exts(_) => json!({"k": "Ipv4Exts", "actual": -1, "max": -1}),
        Ipv6Exts(_) => json!({"k": "Ipv6Exts", "actual": -1, "max": -1}),
        Icmpv6InIpv4 => json!({"k": "Icmpv6InIpv4", "actual": -1, "max": -1}),
        ArpHeaderNotMatch => json!({"k": "ArpHeaderNotMatch", "actual": -1, "max": -1}),
    }
}
fn verr(e: &err::packet::BuildVecWriteError) -> Value {
    use err::packet::BuildVecWriteError::*;
    let _ = format!("{} {:?}", e, e);
    match e {
        PayloadLen(v) => json!({"k": "PayloadLen", "actual": crate::errp::cap(v.actual as i64), "max": crate::errp::cap(v.max_allowed as i64)}),
        Ipv4Exts(_) => json!({"k": "Ipv4Exts", "actual": -1, "max": -1}),
        Ipv6Exts(_) => json!({"k": "Ipv6Exts", "actual": -1, "max": -1}),
        Icmpv6InIpv4 => json!({"k": "Icmpv6InIpv4", "actual": -1, "max": -1}),
        ArpHeaderNotMatch => json!({"k": "ArpHeaderNotMatch", "actual": -1, "max": -1}),
    }
}

macro_rules! sinks {
    ($mk:expr, $payload:expr, $size:expr, |$b:ident, $w:ident| $write:expr, |$b2:ident, $v:ident| $vec:expr, |$b3:ident, $s:ident| $slice:expr) => {{
        let mut out: Vec<u8> = vec![];
        let wres = { let $b = $mk; let $w = &mut out; $write };
        let mut vecout: Vec<u8> = vec![0xAB, 0xCD];          // write_to_vec appends
        let vres = { let $b2 = $mk; let $v = &mut vecout; $vec };
        let mut sbuf = vec![0xC7u8; $size + 6];
        let sres = { let $b3 = $mk; let $s = &mut sbuf[..$size + 2]; $slice };
        // a slice of exactly the announced size must do
        let mut ebuf = vec![0xC7u8; $size + 4];
        let eres = { let $b3 = $mk; let $s = &mut ebuf[..$size]; $slice };
        let exact: Value = match &eres {
            Ok(n) => json!(["ok", *n as i64, b2i(*n == out.len() && ebuf[..*n] == out[..]), b2i(ebuf[$size..].iter().all(|x| *x == 0xC7))]),
            Err(e) => json!([serr(e)["k"], serr(e)["actual"], -1, b2i(ebuf[$size..].iter().all(|x| *x == 0xC7))]),
        };
        // slices that are too short: every "interesting" length (0, 1, inside each part, one byte short)
        let mut shorts: Vec<Value> = vec![];
        let mut lens: Vec<usize> = vec![0, 1, 13, 14, 15, 17, 18, 19, 21, 33, 34, 35, 41, 53, 54, 55, $size / 2, $size.saturating_sub(9), $size.saturating_sub(2), $size.saturating_sub(1)];
        lens.retain(|n| *n < $size);
        lens.sort();
        lens.dedup();
        for n_short in lens {
            let mut short = vec![0xC7u8; n_short + 4];
            let shres = { let $b3 = $mk; let $s = &mut short[..n_short]; $slice };
            let canary = short[n_short..].iter().all(|x| *x == 0xC7);
            // whatever was written is a prefix of the complete encoding (or untouched)
            let prefix = (0..n_short).all(|i| short[i] == 0xC7 || (i < out.len() && short[i] == out[i]));
            shorts.push(match &shres {
                Ok(n) => json!([n_short, "ok", *n as i64, b2i(canary), b2i(prefix)]),
                Err(e) => {
                    let j = serr(e);
                    json!([n_short, j["k"], j["actual"], b2i(canary), b2i(prefix)])
                }
            });
        }
        // io::Write sink that fails after k bytes: every k for small packets, a spread for large ones
        let mut faults: Vec<Value> = vec![];
        if wres.is_ok() {
            let mut ks: Vec<usize> = if $size <= 160 { (0..$size).collect() } else {
                let mut v: Vec<usize> = (0..100).collect();
                v.extend([$size / 2, $size - 9, $size - 2, $size - 1]);
                v
            };
            ks.retain(|k| *k < $size);
            ks.sort();
            ks.dedup();
            for k in ks {
                let mut fw = crate::io::FailWriter::new(k);
                let fres = { let $b = $mk; let $w = &mut fw; $write };
                let prefix = fw.got.len() <= k && fw.got[..] == out[..fw.got.len()];
                faults.push(match &fres {
                    Ok(()) => json!([k, "ok", fw.got.len(), b2i(prefix)]),
                    Err(e) => json!([k, werr(e)["k"], fw.got.len(), b2i(prefix)]),
                });
            }
        }
        (out, wres, vecout, vres, sbuf, sres, shorts, faults, exact)
    }};
}

pub fn run_case(id: &str, cfg: &Value) -> Value {
    let plen = cfg["plen"].as_u64().unwrap() as usize;
    // 13 bytes: a first limb that fills the upper half of a 64 bit register with ones, then limbs of all ones (every further add carries
    // around the register), odd tail; everything else: distinguishable bytes
    let payload: Vec<u8> = if plen == 13 { vec![0, 0, 0, 0, 255, 255, 255, 255, 255, 255, 255, 255, 255] } else { (0..plen).map(|i| ((i * 7 + 3) % 251) as u8).collect() };
    let r = catch_unwind(AssertUnwindSafe(|| {
        let size = match build(cfg) {
            Final::Udp(b) => b.size(plen),
            Final::Tcp(b) => b.size(plen),
            Final::Icmp4(b) => b.size(plen),
            Final::Icmp6(b) => b.size(plen),
            Final::Raw(b, _) => b.size(plen),
            Final::Arp(b) => b.size(),
        };
        let (out, wres, vecout, vres, sbuf, sres, shorts, faults, exact) = match build(cfg) {
            Final::Udp(_) => sinks!(match build(cfg) { Final::Udp(b) => b, _ => unreachable!() }, payload, size, |b, w| b.write(w, &payload), |b, v| b.write_to_vec(v, &payload), |b, s| b.write_to_slice(s, &payload)),
            Final::Tcp(_) => sinks!(match build(cfg) { Final::Tcp(b) => b, _ => unreachable!() }, payload, size, |b, w| b.write(w, &payload), |b, v| b.write_to_vec(v, &payload), |b, s| b.write_to_slice(s, &payload)),
            Final::Icmp4(_) => sinks!(match build(cfg) { Final::Icmp4(b) => b, _ => unreachable!() }, payload, size, |b, w| b.write(w, &payload), |b, v| b.write_to_vec(v, &payload), |b, s| b.write_to_slice(s, &payload)),
            Final::Icmp6(_) => sinks!(match build(cfg) { Final::Icmp6(b) => b, _ => unreachable!() }, payload, size, |b, w| b.write(w, &payload), |b, v| b.write_to_vec(v, &payload), |b, s| b.write_to_slice(s, &payload)),
            Final::Raw(_, last) => sinks!(match build(cfg) { Final::Raw(b, _) => b, _ => unreachable!() }, payload, size, |b, w| b.write(w, IpNumber(last), &payload), |b, v| b.write_to_vec(v, IpNumber(last), &payload), |b, s| b.write_to_slice(s, IpNumber(last), &payload)),
            Final::Arp(_) => sinks!(match build(cfg) { Final::Arp(b) => b, _ => unreachable!() }, payload, size, |b, w| b.write(w), |b, v| b.write_to_vec(v), |b, s| b.write_to_slice(s)),
        };
        let big = plen > 2000;
        let hdr_len = out.len().saturating_sub(if matches!(build(cfg), Final::Arp(_)) { 0 } else { plen });
        let write = match &wres {
            Ok(()) => json!({"k": "ok", "actual": -1, "max": -1}),
            Err(e) => werr(e),
        };
        let vec_v = match &vres {
            Ok(()) => json!({"k": "ok", "same": if vecout.len() >= 2 && vecout[..2] == [0xAB, 0xCD] && vecout[2..] == out[..] { 1 } else { 0 }}),
            Err(e) => json!({"k": verr(e)["k"], "same": -1}),
        };
        let slice_v = match &sres {
            Ok(n) => json!({"k": "ok", "ret": n, "same": if *n <= sbuf.len() && sbuf[..*n] == out[..] { 1 } else { 0 }, "canary": if sbuf[size + 2..].iter().all(|x| *x == 0xC7) { 1 } else { 0 }}),
            Err(e) => json!({"k": serr(e)["k"], "ret": -1, "same": -1, "canary": if sbuf[size + 2..].iter().all(|x| *x == 0xC7) { 1 } else { 0 }}),
        };
        // option areas that do not fit into a TCP header are refused when they are set: [kind (0 raw, 1 elements), requested size, verdict, size stated by the error]
        let mut topt: Vec<Value> = vec![];
        if cfg["tr"] == "tcp" && cfg["tcp_opts"] == 0 && plen <= 8 {
            for n in [39usize, 40, 41, 44, 100] {
                let b = match build(cfg) { Final::Tcp(b) => b, _ => unreachable!() };
                match b.options_raw(&vec![1u8; n]) {
                    Ok(b2) => topt.push(json!([0, n, "ok", b2.size(0) - size + plen])),
                    Err(TcpOptionWriteError::NotEnoughSpace(m)) => topt.push(json!([0, n, "err", m])),
                }
            }
            for k in [4usize, 5, 7] {
                let b = match build(cfg) { Final::Tcp(b) => b, _ => unreachable!() };
                match b.options(&vec![TcpOptionElement::Timestamp(1, 2); k]) {
                    Ok(b2) => topt.push(json!([1, 10 * k, "ok", b2.size(0) - size + plen])),
                    Err(TcpOptionWriteError::NotEnoughSpace(m)) => topt.push(json!([1, 10 * k, "err", m])),
                }
            }
        }
        json!({"ev": "build", "id": id, "cfg": cfg, "plen": plen, "size": size, "big": if big { 1 } else { 0 }, "topt": topt,
               "bytes": if big { out[..hdr_len.min(out.len()).min(400)].to_vec() } else { out.clone() }, "total": out.len(),
               "payload": if big { vec![] } else { payload.clone() },
               "write": write, "vec": vec_v, "slice": slice_v, "shorts": shorts, "faults": faults, "exact": exact})
    }));
    r.unwrap_or_else(|_| json!({"ev": "panic", "id": id, "cfg": cfg}))
}
