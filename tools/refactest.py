#!/usr/bin/env python3
"""false-alarm control: a change that keeps all properties is applied inside its own scratch worktree, a copy of the harness is built
against it and ALL registered checks are run (quick tier); any exit code other than 0 is reported.
usage: refactest.py <worktree> <i> [check ids...]"""
import json, os, shutil, subprocess, sys, time
wt, i = sys.argv[1:3]
checks = sys.argv[3:] or ['C%02d' % k for k in range(1, 18)]
V = '/verif'
sd = os.path.join(wt, '_seed')
subprocess.run(['git', '-C', wt, 'checkout', '-q', '--', '.'])
r = subprocess.run(['git', '-C', wt, 'apply', os.path.join(sd, 'patch%s.diff' % i)])
res = {}
try:
    assert r.returncode == 0, 'patch does not apply'
    h = os.path.join(wt, '_h')
    shutil.rmtree(os.path.join(h, 'src'), ignore_errors=True)
    os.makedirs(os.path.join(h, '.cargo'), exist_ok=True)
    shutil.copytree(os.path.join(V, 'harness', 'src'), os.path.join(h, 'src'))
    # snapshot of the machinery (check, vlib, spec, known findings): later edits in /verif do not reach a run in flight
    SV = os.path.join(wt, '_v')
    shutil.rmtree(SV, ignore_errors=True)
    os.makedirs(SV)
    for x in ('vlib', 'spec'):
        shutil.copytree(os.path.join(V, x), os.path.join(SV, x), ignore=shutil.ignore_patterns('__pycache__', 'states', '*.st'))
    for x in ('check', 'known_findings.json', 'properties.jsonl'):
        shutil.copy(os.path.join(V, x), os.path.join(SV, x))

    open(os.path.join(h, 'Cargo.toml'), 'w').write(open(os.path.join(V, 'harness', 'Cargo.toml')).read().replace('/repo/etherparse', os.path.join(wt, 'etherparse')))
    shutil.copy(os.path.join(V, 'harness', 'Cargo.lock'), os.path.join(h, 'Cargo.lock'))
    shutil.copy(os.path.join(V, 'harness', '.cargo', 'config.toml'), os.path.join(h, '.cargo', 'config.toml'))
    b = subprocess.run(['cargo', 'build', '--offline', '--quiet'], cwd=h, capture_output=True, text=True)
    if 'C01' in checks and b.returncode == 0:
        b = subprocess.run(['cargo', 'build', '--offline', '--quiet', '--release'], cwd=h, capture_output=True, text=True)
    assert b.returncode == 0, 'harness build failed:\n' + b.stderr[-2000:]
    env = dict(os.environ, VERIF_DEV_BIN=os.path.join(h, 'target', 'debug', 'drive'), VERIF_DEV_BIN_RELEASE=os.path.join(h, 'target', 'release', 'drive') if 'C01' in checks else '', VERIF_DEV_WORK=os.path.join(wt, '_work'), VERIF_DEV_EVID=os.path.join(wt, '_evid'), VERIF_DEV_REPO=wt)
    for c in checks:
        p = subprocess.run([os.path.join(SV, 'check'), c, '--tier', 'quick'], cwd=SV, capture_output=True, text=True, env=env)
        viol = [l for l in p.stdout.splitlines() if l.startswith('VIOLATION') or l.startswith('  ') or l.startswith('TOOL')]
        res[c] = {'exit': p.returncode, 'lines': viol[:6]}
        if p.returncode != 0:
            print('patch', i, c, 'exit', p.returncode, '|', ' ; '.join(viol[:4])[:500], flush=True)
            if p.returncode == 2:
                print(p.stderr[-800:])
finally:
    subprocess.run(['git', '-C', wt, 'checkout', '-q', '--', '.'])
json.dump(res, open(os.path.join(sd, 'refactest%s.json' % i), 'w'), indent=1)
print('patch', i, 'alarms:', [c for c, r in res.items() if r['exit'] != 0])
