#!/usr/bin/env python3
"""re-run the registered checks against every kept seeded change (seeded/<name>/patch.diff) and refresh meta.json.
usage: reseed.py [name ...]   (default: all).  The patch is applied to /repo and undone straight afterwards."""
import json, os, subprocess, sys, time
V = os.path.dirname(os.path.dirname(os.path.abspath(__file__)))
REPO = os.environ.get('VERIF_DEV_REPO') or '/repo'
names = sys.argv[1:] or sorted(n for n in os.listdir(os.path.join(V, 'seeded')) if os.path.exists(os.path.join(V, 'seeded', n, 'meta.json')))
for name in names:
    d = os.path.join(V, 'seeded', name)
    meta = json.load(open(os.path.join(d, 'meta.json')))
    checks = list(meta.get('checks_run', {}).keys()) or [meta['property']]
    assert subprocess.run(['git', '-C', REPO, 'status', '--short', '--untracked-files=no'], capture_output=True, text=True).stdout.strip() == '', '/repo not clean'
    r = subprocess.run(['git', '-C', REPO, 'apply', os.path.join(d, 'patch.diff')])
    results = {}
    try:
        if r.returncode != 0:
            results = {'apply': 'failed'}
        else:
            for c in checks:
                t0 = time.time()
                p = subprocess.run([os.path.join(V, 'check'), c, '--tier', 'quick'], cwd=V, capture_output=True, text=True)
                viol = [l for l in p.stdout.splitlines() if l.startswith('VIOLATION') or l.startswith('  ')]
                results[c] = {'exit': p.returncode, 'violations': viol[:8], 'wall_s': round(time.time() - t0, 1)}
    finally:
        subprocess.run(['git', '-C', REPO, 'checkout', '--', '.'])
    meta['checks_run'] = results
    meta['detected_by'] = [c for c, r in results.items() if isinstance(r, dict) and r.get('exit') == 1]
    json.dump(meta, open(os.path.join(d, 'meta.json'), 'w'), indent=1)
    print(name, 'detected by', meta['detected_by'], '' if meta['detected_by'] else '   <<<<<< MISSED', flush=True)
