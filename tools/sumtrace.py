#!/usr/bin/env python3
"""dev helper: summarise a TLC trace-validation output (TRACE-RESULT line) by (api, tag)"""
import sys, json, re, collections
out = open(sys.argv[1]).read()
m = re.search(r'<<"TRACE-RESULT", "(.*)">>', out)
if not m:
    print(out[-3000:]); sys.exit(1)
s = m.group(1).encode().decode('unicode_escape')
r = json.loads(s)
c = collections.Counter(); ex = {}
for (eid, api, tag) in r['bad']:
    c[(api, tag)] += 1; ex.setdefault((api, tag), eid)
print('events', r['events'], 'bad', len(r['bad']), 'known', r['known'])
for k, v in sorted(c.items(), key=lambda x: (x[0][1], x[0][0])):
    print(f'{v:6d} {k[1]:32s} {k[0]:40s} e.g. {ex[k]}')
