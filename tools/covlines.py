#!/usr/bin/env python3
"""uncovered source lines (regions with count 0) per file of /repo/etherparse/src outside #[cfg(test)] modules, from llvm-cov export JSON.
usage: covlines.py export.json [file substring]"""
import json, sys, re
d = json.load(open(sys.argv[1]))
flt = sys.argv[2] if len(sys.argv) > 2 else ''
for f in d['data'][0]['files']:
    name = f['filename']
    if '/repo/etherparse/src' not in name or flt not in name:
        continue
    src = open(name).read().splitlines()
    # first line of a #[cfg(test)] module: everything behind is test code
    cut = len(src) + 1
    for i, l in enumerate(src):
        if l.strip().startswith('#[cfg(test)]') and i + 1 < len(src) and 'mod ' in src[i + 1]:
            cut = i + 1
            break
    unc = set()
    segs = f['segments']
    for a, b in zip(segs, segs[1:] + [None]):
        line, col, count, has_count, is_entry = a[0], a[1], a[2], a[3], a[4]
        if has_count and count == 0 and b is not None:
            for ln in range(line, b[0] + (1 if b[1] > 1 else 0)):
                if ln < cut:
                    unc.add(ln)
    unc = sorted(x for x in unc if x - 1 < len(src) and src[x - 1].strip() and not src[x - 1].strip().startswith('//') and src[x - 1].strip() not in ('}', '{', '})', ')', '},', ');'))
    if not unc:
        continue
    print('== %s (%d lines)' % (name.replace('/repo/etherparse/src/', ''), len(unc)))
    # group consecutive
    start = prev = None
    for x in unc + [None]:
        if start is None:
            start = prev = x
        elif x is not None and x <= prev + 2:
            prev = x
        else:
            print('   %d-%d: %s' % (start, prev, src[start - 1].strip()[:110]))
            start = prev = x
