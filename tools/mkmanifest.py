#!/usr/bin/env python3
"""writes /verif/MANIFEST.json from the table below (single source of truth for the registered checks)"""
import json, os
V = os.path.dirname(os.path.dirname(os.path.abspath(__file__)))

DEC_NOTE = ("Oracle = the TLA+ reference decoder (spec/Decoder.tla, Wire.tla) transcribed from the RFC/IEEE formats; bound to the code by "
            "spec->impl replay (inputs enumerated by TLC from spec/Recipes.tla) and impl->spec trace validation (Trace_Decoder) of all 26 "
            "decoding entry points. Inputs up to ~250 bytes; longer inputs only sampled.")
CHECKS = {
 'C01': dict(cat='model_checking', tech='TLA+ decoder model checked with TLC (InBounds/Tiling in every state) + trace validation of guard-page executions',
   text="TLC checks on the specification that every header/payload range of every run of the decoder machine lies inside the input and inside the innermost length field (all recipes x truncation points x 4 families). Binding: every spec-enumerated and every recorded damaged input is decoded by all 26 entry points with the input flush against a PROT_NONE page behind it and, separately, in front of it (different poison around it); every returned sub-slice range, every accessor value and the iterator output must equal the specification's prediction, both placements must give identical projections, and a fatal signal (guard page SIGSEGV, debug unsafe-precondition SIGABRT) is attributed to the input that caused it.",
   note=DEC_NOTE + " Undefined behaviour as such is observed (guard pages, debug precondition checks, overflow checks), not model checked: UB that neither leaves the input nor changes a result is invisible to this check."),
 'C02': dict(cat='model_checking', tech='TLA+ decoder model checked with TLC (Progress, LayerBound) + trace validation under catch_unwind',
   text="TLC checks that every layer action makes progress and that the number of layers is bounded by the input (termination of the machine for every recipe). Binding: every entry point, iterator, to_header conversion and Debug/Display rendering of results and errors runs under catch_unwind with overflow checks and debug assertions on; a panic is a trace event field that Trace_Decoder rejects, an abort or a hang (per-run timeout) is attributed to the marked input.",
   note=DEC_NOTE + " Hang detection is a wall-clock budget on the harness process."),
 'C03': dict(cat='model_checking', tech='TLA+ reference decoder: TLC-enumerated recipes replayed into SlicedPacket/IpSlice + trace validation',
   text="The strict slice-mode run of the decoder machine IS the wire-format reference: layer sequence, header ranges, field values (every accessor), payload ranges cut to the innermost length field, fragmentation flag, Ok/Err verdict. TLC checks FailIffFault, PayloadWithinWindow, Tiling, LinkExtCap on the spec, and every observation of SlicedPacket::from_{ethernet,linux_sll,ether_type,ip}, IpSlice/Ipv4Slice/Ipv6Slice::from_slice is compared field by field with the prediction.",
   note=DEC_NOTE),
 'C04': dict(cat='model_checking', tech='TLC-checked relation StructAgreesWithSlice + pairwise trace validation of PacketHeaders vs SlicedPacket',
   text="TLC checks on the spec that the struct family equals the slice family up to the single documented difference (DocExtSlotFull). Binding: for every input the projections of PacketHeaders/LaxPacketHeaders/IpHeaders::from_* are compared by Trace_Decoder with the projections of the slice-family run of the same door (headers field by field, payload range, verdict) and, where the struct stops early, with the struct-family prediction.",
   note=DEC_NOTE),
 'C05': dict(cat='model_checking', tech='TLC-checked relation LaxExtendsStrict + trace validation of all lax entry points against the lax run of the machine',
   text="TLC checks LaxExtendsStrict on the spec (strict Ok => identical lax result without stop error/incomplete; strict Err => strict's layers are a prefix of lax's; lax Err only for the first header; incomplete => Slice as source). Binding: LaxSlicedPacket, LaxPacketHeaders, LaxIpSlice, LaxIpv4Slice, LaxIpv6Slice, IpHeaders::from_*_lax observations are compared with the lax-mode prediction (layers, payload, incomplete flags, stop layer) and pairwise with the strict observation of the same door.",
   note=DEC_NOTE + " One listed known finding (C05_LaxVersionByNibble) is modelled as a named deviation action."),
 'C06': dict(cat='model_checking', tech='TLC-checked relation EntryShift + pairwise trace validation of equivalent doors',
   text="TLC checks on the spec that the Ethernet II door equals the ether-type door shifted by 14. Binding: in every trace event the observations of equivalent doors are compared pairwise by Trace_Decoder: version-dispatching vs version-specific IP functions (all twelve boundary copies), from_ethernet vs from_ether_type on the bytes behind the header (offsets + 14), IPv4/IPv6 ether type vs from_ip; header read() vs from_slice is part of the reader check (spec/IoFault).",
   note=DEC_NOTE + " Two rejections are 'the same answer' if they name the same layer/offset/available length (the freedom C07 grants)."),
 'C07': dict(cat='model_checking', tech='set-valued fault model in the TLA+ decoder (Faults per layer) + trace validation of every Err/stop_err',
   text="For every faulty layer the spec computes the set of error reports the property admits (every real fault of that layer: layer name, required_len, len, admissible len_source set, true offset; offending value for content errors). TLC checks ErrShape on the spec; every Err and every lax stop_err of all 26 entry points must be a member of that set. Two listed known findings (MACsec/ARP len_source) are separate deviation disjuncts.",
   note=DEC_NOTE),
}
CHECKS['C11'] = dict(cat='model_checking', tech='TLA+ pool model: TLC exhaustive over all delivery histories in bounds + simulation-generated histories replayed + step-wise trace validation',
   text="spec/Defrag.tla models the pool with its buffers' stale contents. TLC explores ALL delivery histories within the bound (2 streams, 5-7 deliveries incl. duplicates, interleavings, inconsistent fragments, caller-returned poisoned buffers, eviction with reuse) and checks NoLeak, Released, SectionsCanonical, RangesHoldData, NoMix in every state and the step properties ReturnExact/NoEarlyReturn (a payload is returned exactly by the delivery that supplies the last missing byte, real fragments are never rejected) and RejectsInconsistent. Binding: histories from tlc -simulate on the same module and seeded long histories with datagrams up to 2000 bytes are executed on a real IpDefragPool (IPv4 and IPv6 packets, stream ids differing in one component); the return value of EVERY delivery and the pool occupancy (hook H3) are validated step by step by Trace_Defrag, which also evaluates the invariants in every state the real execution passes through.",
   note="Exhaustive only within the stated bounds; datagrams <= 27 bytes in the exhaustive/simulated part. Allocation failure is not injected. The direct IpDefragBuf API is exercised through the pool only.")
CHECKS['C12'] = dict(cat='model_checking', tech='TLA+ walk machine: TLC over all link configurations + every configuration replayed into all five walkers',
   text="spec/ExtChain.tla is the single walk machine behind write_internal / next_header / set_next_headers / header_len / from_slice. TLC enumerates every configuration (six slots absent or linking to a value of {0,60,43,44,51,17}, every first header; quick: at most 3 headers present, thorough: all 619 458) and checks Total, NoSilentDrop, SetThenWalk (RFC 8200 order), DecodeInverse. Every configuration is then executed on the real Ipv6Extensions, IpHeaders, NetHeaders and Ipv4Extensions; Trace_ExtChain compares verdicts, error kinds, written bytes (independent wire walk), announced lengths, the re-decoded struct and the returned ether types with the model, and write-iff-walk pairwise.",
   note="Extension payload contents are out of scope here (C08). Values outside the link alphabet are only sampled (seeded).")
CHECKS['C13'] = dict(cat='model_checking', tech='TLA+ option iterator/encoder machines: TLC over token sequences and element lists + per next() trace validation',
   text="spec/TcpOpts.tla holds the option iterator as a machine (NextOpt: item / end / set of admissible errors, dead afterwards) and the encoder (Required, Encode with END padding). TLC checks Tiling, Bounded, StaysDead on every truncation of every sequence of up to 2 (thorough: 3) tokens (all six kinds, the four SACK sizes, END, malformed size bytes, unknown kinds) and Fits on all element lists up to 3 (4) elements plus lists crossing 40 bytes by every margin. Every case and seeded random areas/lists are executed on TcpOptionsIterator (each next() call and rest() logged), TcpHeaderSlice::options_iterator, TcpOptions::try_from_elements / try_from_slice and TcpHeader::set_options; Trace_TcpOpts steps the machine along the recorded calls.",
   note="Option payload bytes are patterns (they do not influence control flow). Non-canonical SACK elements (a block behind a None slot) are outside the element domain.")
CHECKS['C09'] = dict(cat='model_checking', tech='RFC 1071 accumulator machine in TLA+: TLC over all chunkings + per-step trace validation of the 32/64-bit registers and all protocol checksum functions',
   text="spec/Checksum.tla is the RFC 1071 accumulator as a machine on 16-bit quantities plus the RFC pseudo-header compositions. TLC explores every chunking (add_2/4/8bytes, slices cut at even offsets, odd tail last) of every byte string over a small alphabet and checks SplitIndependence (running sum = Fold1071 of everything added so far) and RFC known-answer vectors. Binding: each chunking is replayed into Sum16BitWords, u32_16bit_word and u64_16bit_word and the folded value is validated after EVERY add call; directed saturation cases force end-around carries of the 32/64-bit registers themselves; all lengths 0..70 with random chunkings; every calc_checksum*/with_*_checksum/update_checksum*/is_checksum_valid/calc_header_checksum variant of UDP, TCP (header, header slice, slice), ICMPv4, ICMPv6, IGMP and IPv4 over v4/v6 is recomputed by Trace_Checksum from header bytes, payload and addresses (UDP never 0).",
   note="This is numeric code: TLC exhausts the 16-bit machine only; the 64-bit implementation is bound by per-step validation on directed and seeded inputs (testing against a formal oracle). Little-endian host. Checksums filled in by the PacketBuilder are validated by the C10 check.")
WIRE_NOTE = "Byte-exact TLA+ encoders/decoders exist for 14 header kinds (Ethernet II, Linux SLL, VLAN, MACsec, ARP, IPv4+options, AH, IPv6, UDP, TCP+options, fragment, raw extension, ICMPv6 raw form); typed ICMP/IGMP/NDP values are handled by the C17 check. The oracle is an executable specification enumerated systematically within stated bounds (star design), not an exhaustive exploration of the value space."
CHECKS['C08'] = dict(cat='model_checking', tech='byte-exact TLA+ codecs (Wire.tla): TLC checks RoundTrip/LenAnnounced/Normalises, every value replayed through all serialisers and decoders',
   text="spec/Wire.tla holds Enc/Dec per header kind. TLC checks on the spec RoundTrip (Dec(Enc(v)) = v), LenAnnounced and Normalises (bytes with reserved bits set decode to the same value and re-encode with exactly those bits cleared) over a star design: all-zero and all-ones base values, every field swept over its boundary set against both, variable parts at every length class. Every value is built through the public constructors, serialised by to_bytes, write (write_raw for IPv4, write compared modulo the recomputed checksum) and write_to_slice where it exists; Trace_Wire demands bytes = Enc(v) byte for byte, header_len = length, from_slice / from_bytes / read return the value with an empty remainder and consume exactly the header; accepted byte strings with reserved bits are decoded, re-encoded and decoded again.",
   note=WIRE_NOTE)
CHECKS['C14'] = dict(cat='model_checking', tech='table-driven setter machine in TLA+ (Fields.tla) + replay of every api x context x boundary value',
   text="spec/Fields.tla derives, from the wire field widths, for every length-taking API the set of accepted values, the encoded result and the admissible error triples. TLC checks AcceptIffFits and Monotone over all cases and emits them: 20 APIs (IPv4/IPv6/IpHeaders payload length, UDP constructors and checksum functions, TCP checksum, MACsec short length, AH ICV, extension payload, IPv4 options, ARP address sizes) x header contexts (options / extension lengths) x values {0, 1, L-2..L+2, 2^16-2..2^16+2, far beyond}. Each case is executed on the real API; Trace_Fields compares verdict, error fields (offending and allowed value), unchanged-on-error and the value decoded from the encoded bytes.",
   note="32-bit pseudo-header limits are only probed below the limit (no 4 GiB payloads). Builder payload limits belong to the C10 check.")
CHECKS['C15'] = dict(cat='model_checking', tech='complete newtype domains (Fields.tla) + byte-exact encoders swept per field (Wire.tla)',
   text="Two parts. (1) Fields.tla: the complete value domain (plus out-of-range neighbours up to the argument type's maximum) of VlanId, VlanPcp, IpDscp, IpEcn, IpFragOffset, MacsecAn, MacsecShortLen, Qrv (Ipv6FlowLabel: boundaries + stride, complete in the thorough tier) through try_new/try_from: accepted exactly when the value fits, error carries value and maximum. (2) Wire.tla: every value of every bit field (VLAN id all 4096, PCP, DEI, DSCP, ECN, flags, fragment offset, flow label parts, MACsec AN/SL/flags, TCP flags, data offset) against all-zero and all-ones neighbours must serialise to exactly the specification's bytes, so no field can alter a bit it does not own; decoding returns the value (in range by construction of the extractors, also checked on arbitrary bytes by the C03 field comparison).",
   note=WIRE_NOTE)
CHECKS['C16'] = dict(cat='fault_enumeration', tech='TLA+ writer / LimitedReader machines model checked + every fault position of every header type executed and validated by Trace_Io',
   text="spec/IoFault.tla: a sink accepting cap bytes with write_all semantics (a prefix of the failing chunk may be delivered) and the LimitedReader machine; TLC checks PrefixOnly, FaultSurfaces, NoFalseSuccess, NeverOverpulls, BudgetConserved for all chunk plans / call sequences within bounds. Binding (fault positions enumerated, not sampled): for every header type and byte string (encodings of the MC_Wire value space incl. maximum-length variable parts, damaged control bytes, noise) the harness reads under a reader failing after k bytes for EVERY k in 0..=len, writes the decoded value into a writer failing after k bytes for EVERY k in 0..=total+1, write_to_slice into EVERY slice length with canaries behind it, read_limited under EVERY limit; Trace_Io derives the expected verdicts from Wire.tla (header length, content rules): faults surface, no false success, delivered bytes are a prefix, space errors state the true required length, nothing is written outside, no overpull.",
   note="13 single header types; the multi-part writers (IpHeaders, Ipv6Extensions, PacketBuilder incl. write_to_slice) are exercised by the C12 and C10 checks. Fault model: the source/sink delivers exactly k bytes, then errors.")
CHECKS['C10'] = dict(cat='model_checking', tech='builder typestate machine in TLA+ (all paths enumerated by TLC) + output decoded by the TLA+ reference decoder and checksum machine',
   text="spec/Builder.tla is the PacketBuilder typestate machine: every builder method is an action guarded by the typestate; TLC enumerates every complete path (ethernet2|linux_sll|none x none|single|double|explicit VLAN x ipv4|ipv6|IpHeaders with options/auth/10 extension sets|ARP x udp|tcp with every flag setter and three option forms|tcp_header|4 ICMPv4 forms|4 ICMPv6 forms|raw with protocol 253/59/0 x payload lengths {0,1,2,3,7,8,9,64} and the path's exact limit -1/0/+1) and checks the typestate invariants and SizeFits. Every path is executed on the real builder through write, write_to_vec and write_to_slice (+ a slice one byte too short, canaries). Trace_Builder uses an oracle independent of the crate: size(payload_len) = bytes written = spec Size; the three sinks agree; unencodable paths yield exactly the admissible error; the bytes are decoded by the strict reference decoder (Decoder.tla) which must find the configured layer sequence, addresses, ports, flags, options, VLAN ids, extension order (RFC 8200) and payload; every length field equals the real size; IPv4 header, UDP (never 0), TCP, ICMPv4 and ICMPv6 checksums verify under Checksum.tla.",
   note="64 kB packets are checked for sizes, verdicts and length fields only (no byte-exact decode / checksum in TLC). Field values are fixed constants of the harness.")
CHECKS['C17'] = dict(cat='model_checking', tech='RFC dispatch tables and the NDP option machine in TLA+ (Ctl.tla): TLC over all (type,code) pairs / option token sequences + per-call trace validation',
   text="spec/Ctl.tla transcribes the ICMPv4 (RFC 792/1122/1812) and ICMPv6 (RFC 4443/4861) type/code tables with fall-back to Unknown, the normalised header of each kind, the fixed/variable split of neighbour discovery payloads, the NDP option iterator as a machine (units of 8 bytes, zero units rejected, MTU = 1 unit, prefix information = 4 units, dead after the first error), IGMP kinds by type and message length (query v1/v2 at exactly 8, v3 at >= 12), group record headers and the ARP Ethernet/IPv4 view conditions. TLC checks UnknownFallback (totality of the dispatch, type/code/checksum preserved) and OptionTiling and enumerates the cases (thorough: all 65 536 pairs per ICMP version). Each case runs Icmpv4Slice/Icmpv6Slice (icmp_type, header, header_len, payload, payload_slice, options_iterator per next() call with byte ranges), Icmpv4Header/Icmpv6Header::from_slice, NdpOptionsIterator, IgmpHeader, ReportGroupRecordV3Header and ArpPacket::try_eth_ipv4 and is validated by Trace_Ctl.",
   note="Typed values are compared through variant name + normalised header bytes; field-level accessors of the individual NDP option slices (e.g. prefix information flags) are only swept for memory safety (C01), not value-checked.")
PENDING = {
}
NA = []

def main():
    props = [json.loads(l) for l in open(os.path.join(V, 'properties.jsonl'))]
    checks = []
    for p in props:
        pid = p['id']
        if pid in CHECKS:
            c = CHECKS[pid]
            checks.append({
                'property_id': pid,
                'quick_cmd': './check %s --tier quick' % pid,
                'thorough_cmd': './check %s --tier thorough' % pid,
                'evidence_file': 'evidence/%s.json' % pid,
                'replay_cmd_template': './check %s --replay {path}' % pid,
                'engine': c.get('engine', 'tlc+harness'),
                'level_claimed': {'category': c['cat'], 'text': c['text'], 'design_ref': 'DESIGN.md section 5 (%s)' % pid},
                'level_note': c['note'],
                'technique': c['tech'],
            })
        else:
            NA.append({'property_id': pid, 'reason': PENDING.get(pid, 'check not built yet in this round; the specification module is planned in DESIGN.md section 5')})
    m = {
        'version': 1,
        'setup_cmd': './check setup',
        'hooks': {
            'guard': 'etherparse_verif',
            'enable': 'RUSTFLAGS --cfg etherparse_verif (set in /verif/harness/.cargo/config.toml: rustflags = ["--cfg","etherparse_verif","--check-cfg","cfg(etherparse_verif)"])',
            'baseline_off_cmd': 'cd /repo && cargo test --workspace --no-fail-fast --offline',
            'source_commits': json.load(open(os.path.join(V, 'hooks.json')))['source_commits'] if os.path.exists(os.path.join(V, 'hooks.json')) else [],
            'add_only': True,
        },
        'engines': [
            {'name': 'tlc+harness', 'path': 'spec/ + harness/ + vlib/', 'serves_properties': sorted(CHECKS.keys()),
             'kind_free_text': 'explicit TLA+ specifications checked with TLC; bound to the code by spec->impl replay of TLC-generated behaviours and impl->spec trace validation of executions recorded by a Rust harness'},
        ],
        'checks': checks,
        'not_applicable': NA,
        'notes': 'Every check: exit 0 held / 1 VIOLATION line + replay file / 2 tool error. Known findings: known_findings.json (never written at run time).',
    }
    json.dump(m, open(os.path.join(V, 'MANIFEST.json'), 'w'), indent=1)
    print('checks', len(checks), 'not_applicable', len(NA))

main()
