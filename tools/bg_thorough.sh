#!/bin/bash
# development: run the thorough tier of all (or the given) checks in a background snapshot (vp run --with-repo -- tools/bg_thorough.sh [ID...])
if [ -n "$VP_RUN_REPO" ]; then
  export VERIF_DEV_REPO=$VP_RUN_REPO
  sed -i "s#/repo/etherparse#$VP_RUN_REPO/etherparse#" harness/Cargo.toml
fi
ids="$@"; [ -z "$ids" ] && ids="C13 C17 C09 C12 C10 C14 C15 C08 C16 C11 C03 C05 C04 C07 C06 C02 C01"
for p in $ids; do
  s=$(date +%s); ./check $p --tier thorough > thorough_$p.log 2>&1; echo "$p exit $? $(( $(date +%s) - s ))s"
  grep -E "VIOLATION|TOOL-ERROR|KNOWN" thorough_$p.log | head -5
done
