#!/usr/bin/env python3
"""dev helper: print one event of a trace (by id), optionally restricted to apis matching a substring"""
import sys, json
f, eid = sys.argv[1], sys.argv[2]
sub = sys.argv[3] if len(sys.argv) > 3 else ''
for line in open(f):
    e = json.loads(line)
    if e['id'] == eid:
        print('bytes', len(e['bytes']), e['bytes'])
        for r in e['runs']:
            if sub in r['api']:
                x = r['res']
                print('--', r['api'], 'skip', r['skip'], 'et', r['et'], 'v', x['v'], 'pl', r['pl'])
                for L in x['layers']:
                    print('    ', L['k'], L['off'], L['hlen'], 'p=', {k: v for k, v in L['p'].items()}, 'f=', L['f'][:12])
                print('     pay', x['pay'])
                print('     err', {k: v for k, v in x['err'].items() if v not in (-1, '')})
        break
