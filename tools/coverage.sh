#!/bin/bash
# development tool: which parts of etherparse do the quick-tier drivers execute?
# builds the harness with -C instrument-coverage (nightly llvm-tools) in a scratch dir, runs the quick tier of the given
# checks with that binary (scratch work/evidence dirs), prints functions of /repo/etherparse/src that were never executed.
# usage: tools/coverage.sh <scratch dir> <ID>...
S=$1; shift
BIN=$HOME/.rustup/toolchains/nightly-x86_64-unknown-linux-gnu/lib/rustlib/x86_64-unknown-linux-gnu/bin
mkdir -p $S/h $S/work $S/evid $S/prof
rm -rf $S/h/src; cp -r /verif/harness/src /verif/harness/Cargo.toml /verif/harness/Cargo.lock $S/h/
sed -i 's/opt-level = 1/opt-level = 0/' $S/h/Cargo.toml
mkdir -p $S/h/.cargo
cat > $S/h/.cargo/config.toml <<EOT
[net]
offline = true
[build]
target-dir = "target"
rustflags = ["--cfg", "etherparse_verif", "--check-cfg", "cfg(etherparse_verif)", "-C", "instrument-coverage"]
EOT
(cd $S/h && cargo +nightly build --offline --quiet) || exit 2
for id in "$@"; do
  LLVM_PROFILE_FILE="$S/prof/$id-%p-%8m.profraw" VERIF_DEV_BIN=$S/h/target/debug/drive VERIF_DEV_WORK=$S/work VERIF_DEV_EVID=$S/evid /verif/check $id --tier quick 2>&1 | tail -2
done
$BIN/llvm-profdata merge -sparse $S/prof/*.profraw -o $S/all.profdata
$BIN/llvm-cov report $S/h/target/debug/drive -instr-profile=$S/all.profdata --ignore-filename-regex='(registry|rustc|/tmp/)' > $S/report.txt
$BIN/llvm-cov export $S/h/target/debug/drive -instr-profile=$S/all.profdata --ignore-filename-regex='(registry|rustc|/tmp/)' -format=text -skip-expansions > $S/export.json
python3 /verif/tools/covsum.py $S/export.json > $S/uncovered.txt
tail -1 $S/report.txt
