#!/usr/bin/env python3
"""development: re-run seedtest2 for kept changes of a round whose scratch worktrees still exist.
usage: retest.py <round dir prefix, e.g. /tmp/seed3_> <max parallel> < lines 'ID i name check [check ...]'"""
import subprocess, sys, os, re
from concurrent.futures import ThreadPoolExecutor
prefix, par = sys.argv[1], int(sys.argv[2])
V = os.path.dirname(os.path.dirname(os.path.abspath(__file__)))
groups = {}
for l in sys.stdin:
    p = l.split()
    if p:
        groups.setdefault(p[0], []).append(p)


def run(pid):
    out = []
    for p in groups[pid]:
        r = subprocess.run([sys.executable, os.path.join(V, 'tools', 'seedtest2.py'), prefix + pid, p[1], p[2], pid] + p[3:], capture_output=True, text=True)
        out.append('== %s\n' % p[2] + '\n'.join(l[:300] for l in r.stdout.splitlines() if re.match(r'^(C\d\d exit|confirmed|NOT CONF|patch|harness build)', l)))
        print(out[-1], flush=True)
    return out


with ThreadPoolExecutor(par) as ex:
    list(ex.map(run, sorted(groups)))
