#!/bin/bash
# development: re-run all kept seeded changes in a background snapshot (vp run --with-repo -- tools/bg_reseed.sh)
# the snapshot's harness is pointed at the snapshot of the repository, so /repo and /verif stay untouched
set -e
export VERIF_DEV_REPO=$VP_RUN_REPO
sed -i "s#/repo/etherparse#$VP_RUN_REPO/etherparse#" harness/Cargo.toml
python3 tools/reseed.py "$@"
for d in seeded/*/; do python3 -c "
import json; m=json.load(open('$d/meta.json')); print('$d', m['detected_by'])"; done
