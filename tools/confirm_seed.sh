#!/bin/bash
# confirm a seeded change in its own scratch worktree: suite passes with it, demo fails with it, demo passes without it
# usage: confirm_seed.sh <worktree> <i>
wt=$1; i=$2; out=$wt/_seed/confirm$i.txt
cd $wt || exit 2
git checkout -q -- . ; rm -f etherparse/tests/demo*.rs
git apply _seed/patch$i.diff || { echo "APPLY-FAILED" > $out; exit 1; }
{
echo "== suite with patch"; cargo test --workspace --offline --no-fail-fast 2>&1 | grep -E "^test result|\.\.\. FAILED|^error" 
cp _seed/demo$i.rs etherparse/tests/demo$i.rs
echo "== demo with patch"; cargo test --offline -p etherparse --test demo$i 2>&1 | grep -E "^test result|^test .* FAILED|panicked|^error|signal" | head -8
git checkout -q -- .
echo "== demo without patch"; cargo test --offline -p etherparse --test demo$i 2>&1 | grep -E "^test result|^test .* FAILED|panicked|^error|signal" | head -8
rm -f etherparse/tests/demo$i.rs
} > $out 2>&1
git status --short | grep -v _seed >> $out
echo done >> $out
