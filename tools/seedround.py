#!/usr/bin/env python3
"""development: confirm and test the three changes an agent left in <worktree>/_seed (round tag r3, r4, ...).
usage: seedround.py <worktree> <ID> <round tag> [extra check ids...]"""
import os, re, subprocess, sys
wt, pid, tag = sys.argv[1:4]
extra = sys.argv[4:]
V = os.path.dirname(os.path.dirname(os.path.abspath(__file__)))
for i in (1, 2, 3):
    if not os.path.exists(os.path.join(wt, '_seed', 'patch%d.diff' % i)):
        continue
    subprocess.run([os.path.join(V, 'tools', 'confirm_seed.sh'), wt, str(i)])
    notes = os.path.join(wt, '_seed', 'notes%d.md' % i)
    title = ''
    if os.path.exists(notes):
        for l in open(notes):
            if l.strip():
                title = l.strip().lstrip('#').strip()
                break
    patch = open(os.path.join(wt, '_seed', 'patch%d.diff' % i)).read()
    files = re.findall(r'^\+\+\+ b/etherparse/src/(.*)\.rs$', patch, re.M)
    base = (files[0].split('/')[-1] if files else 'change')
    words = re.findall(r'[A-Za-z0-9]+', title.lower())
    words = [w for w in words if w not in ('change', 'seed', 'seeded', 'the', 'a', 'of', 'in', 'for', 'and', 'to', pid.lower(), str(i), 'c' + pid[1:])][:5]
    name = '%s_%s_%s_%s' % (pid, tag, base, '_'.join(words))[:70]
    r = subprocess.run([sys.executable, os.path.join(V, 'tools', 'seedtest2.py'), wt, str(i), name, pid, pid] + extra, capture_output=True, text=True)
    print('== %s' % name)
    print('\n'.join(l[:260] for l in r.stdout.splitlines() if re.match(r'^(C\d\d exit|confirmed|NOT CONF|patch|harness build)', l)), flush=True)
    if r.returncode != 0:
        print(r.stderr[-600:])
