#!/bin/sh
# dev helper: apply a patch to /repo, run the given checks (quick), undo the patch
# usage: mutest.sh <patch> <ID> [<ID> ...]
p=$1; shift
git -C /repo apply "$p" || exit 2
for id in "$@"; do
  /verif/check $id --tier quick > /tmp/mutest.$id.out 2>/tmp/mutest.$id.err
  echo "== $id exit $? : $(grep -c VIOLATION /tmp/mutest.$id.out) violation lines"
  grep -A1 VIOLATION /tmp/mutest.$id.out | head -8
  grep TOOL-ERROR -A5 /tmp/mutest.$id.err | head -10
done
git -C /repo checkout -- .
