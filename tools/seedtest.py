#!/usr/bin/env python3
"""keep a confirmed seeded change under /verif/seeded/<name>/ and run registered checks against it.
usage: seedtest.py <seed worktree> <i> <name> <property> <check id> [<check id> ...]
The patch is applied to /repo, the checks are run (quick tier), the patch is undone straight afterwards."""
import json, os, shutil, subprocess, sys, time
wt, i, name, prop = sys.argv[1:5]
checks = sys.argv[5:]
V = '/verif'
d = os.path.join(V, 'seeded', name)
os.makedirs(d, exist_ok=True)
sd = os.path.join(wt, '_seed')
conf = open(os.path.join(sd, 'confirm%s.txt' % i)).read()
ok = ('== suite with patch' in conf and ' failed; ' in conf and ('FAILED' in conf.split('== demo with patch')[1].split('== demo without patch')[0] or 'error: test failed' in conf.split('== demo with patch')[1].split('== demo without patch')[0])
      and 'FAILED' not in conf.split('== demo without patch')[1] and 'error: test failed' not in conf.split('== demo without patch')[1] and all(' 0 failed' in l for l in conf.split('== demo with patch')[0].splitlines() if l.startswith('test result')))
shutil.copy(os.path.join(sd, 'patch%s.diff' % i), os.path.join(d, 'patch.diff'))
shutil.copy(os.path.join(sd, 'demo%s.rs' % i), os.path.join(d, 'demo.rs'))
if os.path.exists(os.path.join(sd, 'notes%s.md' % i)):
    shutil.copy(os.path.join(sd, 'notes%s.md' % i), os.path.join(d, 'notes.md'))
open(os.path.join(d, 'confirm.txt'), 'w').write(conf)
assert subprocess.run(['git', '-C', '/repo', 'status', '--short', '--untracked-files=no'], capture_output=True, text=True).stdout.strip() == '', '/repo not clean'
r = subprocess.run(['git', '-C', '/repo', 'apply', os.path.join(d, 'patch.diff')])
results = {}
try:
    if r.returncode != 0:
        print('patch does not apply to /repo HEAD'); results = {'apply': 'failed'}
    else:
        for c in checks:
            t0 = time.time()
            p = subprocess.run([os.path.join(V, 'check'), c, '--tier', 'quick'], cwd=V, capture_output=True, text=True)
            viol = [l for l in p.stdout.splitlines() if l.startswith('VIOLATION') or l.startswith('  ')]
            results[c] = {'exit': p.returncode, 'violations': viol[:8], 'wall_s': round(time.time() - t0, 1)}
            print(c, 'exit', p.returncode, '|', ' ; '.join(viol[:4])[:400])
            if p.returncode == 2:
                print(p.stderr[-1500:])
finally:
    subprocess.run(['git', '-C', '/repo', 'checkout', '--', '.'])
meta = {'property': prop, 'source': 'independent sub-agent working only from the property text in its own scratch worktree',
        'confirmed_by_me': ok, 'confirmation': 'tools/confirm_seed.sh in the scratch worktree: unedited suite passes with the patch, demo fails with it, demo passes without it (see confirm.txt)',
        'needs_to_manifest': open(os.path.join(d, 'notes.md')).read()[:1500] if os.path.exists(os.path.join(d, 'notes.md')) else '',
        'checks_run': results, 'detected_by': [c for c, r in results.items() if isinstance(r, dict) and r.get('exit') == 1]}
json.dump(meta, open(os.path.join(d, 'meta.json'), 'w'), indent=1)
print('confirmed' if ok else 'NOT CONFIRMED', 'detected by', meta['detected_by'])
