#!/usr/bin/env python3
"""lists functions of /repo/etherparse/src that the drivers never executed (non-test code), from llvm-cov export JSON"""
import json, sys, re, subprocess
d = json.load(open(sys.argv[1]))
fn = {}
for f in d['data'][0]['functions']:
    files = f['filenames']
    if not files or '/repo/etherparse/src' not in files[0]:
        continue
    name = f['name']
    key = (files[0], f['regions'][0][0])
    fn.setdefault(key, [name, 0])
    fn[key][1] += f['count']
try:
    dem = subprocess.run(['rustfilt'], input='\n'.join(v[0] for v in fn.values()), capture_output=True, text=True).stdout.splitlines()
except Exception:
    dem = [v[0] for v in fn.values()]
byfile = {}
for (k, v), name in zip(fn.items(), dem):
    if v[1] == 0:
        byfile.setdefault(k[0], []).append((k[1], name))
for f in sorted(byfile):
    src = open(f).read().splitlines()
    print(f.replace('/repo/etherparse/src/', ''))
    for line, name in sorted(byfile[f]):
        text = src[line - 1].strip() if line - 1 < len(src) else ''
        if 'fn ' not in text and line < len(src):
            text = text + ' ' + src[line].strip()
        print('   %5d %s' % (line, text[:140]))
