#!/usr/bin/env python3
"""like seedtest.py, but leaves /repo and /verif/harness alone: the patch is applied inside the seed's own scratch worktree, a copy of
the harness is built against that worktree, and the registered checks run with that binary (development overrides VERIF_DEV_*).
usage: seedtest2.py <seed worktree> <i> <name> <property> <check id> [<check id> ...]"""
import json, os, shutil, subprocess, sys, time
wt, i, name, prop = sys.argv[1:5]
checks = sys.argv[5:]
V = '/verif'
d = os.path.join(V, 'seeded', name)
os.makedirs(d, exist_ok=True)
sd = os.path.join(wt, '_seed')
conf = open(os.path.join(sd, 'confirm%s.txt' % i)).read()
with_p = conf.split('== demo with patch')[1].split('== demo without patch')[0]
without_p = conf.split('== demo without patch')[1]
ok = ('== suite with patch' in conf and ('FAILED' in with_p or 'error: test failed' in with_p) and 'FAILED' not in without_p and 'error: test failed' not in without_p
      and 'error' not in without_p.split('done')[0].replace('0 failed', '')
      and all(' 0 failed' in l for l in conf.split('== demo with patch')[0].splitlines() if l.startswith('test result')) and 'test result' in conf.split('== demo with patch')[0])
shutil.copy(os.path.join(sd, 'patch%s.diff' % i), os.path.join(d, 'patch.diff'))
shutil.copy(os.path.join(sd, 'demo%s.rs' % i), os.path.join(d, 'demo.rs'))
if os.path.exists(os.path.join(sd, 'notes%s.md' % i)):
    shutil.copy(os.path.join(sd, 'notes%s.md' % i), os.path.join(d, 'notes.md'))
open(os.path.join(d, 'confirm.txt'), 'w').write(conf)
subprocess.run(['git', '-C', wt, 'checkout', '-q', '--', '.'])
r = subprocess.run(['git', '-C', wt, 'apply', os.path.join(d, 'patch.diff')])
results = {}
try:
    if r.returncode != 0:
        print('patch does not apply'); results = {'apply': 'failed'}
    else:
        h = os.path.join(wt, '_h')
        shutil.rmtree(os.path.join(h, 'src'), ignore_errors=True)
        os.makedirs(os.path.join(h, '.cargo'), exist_ok=True)
        shutil.copytree(os.path.join(V, 'harness', 'src'), os.path.join(h, 'src'))
        # snapshot of the machinery (check, vlib, spec, known findings): later edits in /verif do not reach a run in flight
        SV = os.path.join(wt, '_v')
        shutil.rmtree(SV, ignore_errors=True)
        os.makedirs(SV)
        for x in ('vlib', 'spec'):
            shutil.copytree(os.path.join(V, x), os.path.join(SV, x), ignore=shutil.ignore_patterns('__pycache__', 'states', '*.st'))
        for x in ('check', 'known_findings.json', 'properties.jsonl'):
            shutil.copy(os.path.join(V, x), os.path.join(SV, x))

        toml = open(os.path.join(V, 'harness', 'Cargo.toml')).read().replace('/repo/etherparse', os.path.join(wt, 'etherparse'))
        open(os.path.join(h, 'Cargo.toml'), 'w').write(toml)
        shutil.copy(os.path.join(V, 'harness', 'Cargo.lock'), os.path.join(h, 'Cargo.lock'))
        shutil.copy(os.path.join(V, 'harness', '.cargo', 'config.toml'), os.path.join(h, '.cargo', 'config.toml'))
        b = subprocess.run(['cargo', 'build', '--offline', '--quiet'], cwd=h, capture_output=True, text=True)
        if 'C01' in checks and b.returncode == 0:
            b = subprocess.run(['cargo', 'build', '--offline', '--quiet', '--release'], cwd=h, capture_output=True, text=True)
        if b.returncode != 0:
            print('harness build failed with the patch:\n' + b.stderr[-1500:]); results = {'build': 'failed'}
        else:
            env = dict(os.environ, VERIF_DEV_BIN=os.path.join(h, 'target', 'debug', 'drive'), VERIF_DEV_BIN_RELEASE=os.path.join(h, 'target', 'release', 'drive') if 'C01' in checks else '', VERIF_DEV_WORK=os.path.join(wt, '_work'), VERIF_DEV_EVID=os.path.join(wt, '_evid'),
                       VERIF_DEV_REPO=wt)
            for c in checks:
                t0 = time.time()
                p = subprocess.run([os.path.join(SV, 'check'), c, '--tier', 'quick'], cwd=SV, capture_output=True, text=True, env=env)
                viol = [l for l in p.stdout.splitlines() if l.startswith('VIOLATION') or l.startswith('  ')]
                results[c] = {'exit': p.returncode, 'violations': viol[:8], 'wall_s': round(time.time() - t0, 1)}
                print(c, 'exit', p.returncode, '|', ' ; '.join(viol[:4])[:400])
                if p.returncode == 2:
                    print(p.stderr[-1500:])
finally:
    subprocess.run(['git', '-C', wt, 'checkout', '-q', '--', '.'])
meta = {'property': prop, 'source': 'independent sub-agent (second round: three changes per property, sites of the first round excluded) working only from the property text in its own scratch worktree',
        'confirmed_by_me': ok, 'confirmation': 'tools/confirm_seed.sh in the scratch worktree: unedited suite passes with the patch, demo fails with it, demo passes without it (see confirm.txt)',
        'needs_to_manifest': open(os.path.join(d, 'notes.md')).read()[:1500] if os.path.exists(os.path.join(d, 'notes.md')) else '',
        'checks_run': results, 'detected_by': [c for c, r in results.items() if isinstance(r, dict) and r.get('exit') == 1]}
json.dump(meta, open(os.path.join(d, 'meta.json'), 'w'), indent=1)
print('confirmed' if ok else 'NOT CONFIRMED', 'detected by', meta['detected_by'])
