"""./check setup: offline build of the harness and a parse check of every specification module"""
import glob, os, subprocess, sys
from . import core


def run():
    core.build_harness()
    bad = 0
    for f in sorted(glob.glob(os.path.join(core.SPEC, '*.tla'))):
        p = subprocess.run(['tla-sany', os.path.basename(f)], cwd=core.SPEC, stdout=subprocess.PIPE, stderr=subprocess.STDOUT, text=True)
        if p.returncode != 0 or 'rror' in p.stdout.replace('Semantic errors:\n\n*** Errors: 0', ''):
            if 'Could not find module' in p.stdout or '*** Errors' in p.stdout or 'Fatal' in p.stdout or 'Lexical error' in p.stdout:
                print('SANY failed on', f)
                print(p.stdout[-2000:])
                bad += 1
    os.makedirs(core.EVID, exist_ok=True)
    print('setup ok' if not bad else 'setup failed')
    return 0 if not bad else 2
