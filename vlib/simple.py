"""Generic pipeline for the machines whose behaviours are independent cases:
   TLC model checks MC_<X> (invariants of the specification) and prints one input line per case;
   the harness executes every case on the real crate (`drive <sub>`); Trace_<X> validates the recorded
   results.  Extra seeded cases (impl -> spec direction) come from a python generator."""
import json, os, time
from . import core


class Job:
    def __init__(self, pid, mc, tag, drive, trace, invariants, consts_quick, consts_thorough, properties=(),
                 extra=None, trace_consts=None, describe='', assumptions=(), tag_props=None, mc_workers=8, shards=8,
                 group_key=None, spec_kind='Spec', extra_mc=(), level='model_checking', design_mc=()):
        self.__dict__.update(locals())


def run_job(job, pid, tier, seed, replay=None):
    t0 = time.time()
    wd = core.workdir(pid)
    binary = core.build_harness()
    kf = core.known_findings()
    devs = [f['id'] for f in kf['findings'] if f['property'] == pid or f.get('also', '') == pid]
    tconsts = {'KnownDev': core.tla_set(devs)}
    tconsts.update(job.trace_consts or {})
    violations, known_hit, samples, notes = [], set(), [], {}
    stats = {'generated': 0, 'distinct': 0, 'events': 0}

    def execute(inputs, label):
        inp = os.path.join(wd, label + '_in.ndjson')
        with open(inp, 'w') as f:
            for x in inputs:
                f.write(json.dumps(x) + '\n')
        trace = os.path.join(wd, label + '_trace.ndjson')
        crashes = core.run_drive(binary, [job.drive, '--in', inp], trace, wd)
        byid = {x['id']: x for x in inputs}
        for c in crashes:
            violations.append({'class': 'crash|' + c['signal'], 'summary': 'fatal %s in case %s: %s' % (c['signal'], c['id'], c['stderr'][-300:].replace('\n', ' | ')),
                               'kind': job.drive, 'property': pid, 'input': byid.get(c['id']), 'stderr': c['stderr']})
        if not os.path.exists(trace) or os.path.getsize(trace) == 0:
            if violations:
                return
            raise core.ToolError('no trace events recorded (%s)' % label)
        res = core.validate_trace(job.trace, trace, wd, tconsts, shards=job.shards, timeout=3000, group_key=job.group_key)
        stats['generated'] += res['generated']
        stats['distinct'] += res['distinct']
        stats['events'] += res['events']
        known_hit.update(k[3:] for k in res['known'])
        notes[label] = {'cases': len(inputs), 'events': res['events'], 'mismatches_all_properties': len(res['bad'])}
        for b in res['bad']:
            eid, tag = b[0], b[-1]
            if tag.startswith('SPEC.'):
                raise core.ToolError('specification self-check failed while validating %s: %s' % (eid, tag))
            props = job.tag_props(tag) if job.tag_props else [pid]
            if pid in props:
                base = eid.split('.')[0] if eid not in byid else eid
                violations.append({'class': tag.split(':')[0], 'summary': 'case %s: %s' % (eid, tag), 'kind': job.drive, 'property': pid,
                                   'tag': tag, 'input': byid.get(eid) or byid.get(base)})
        for x in inputs[:2]:
            samples.append({'source': label, 'case': x})
        os.remove(trace)

    if replay:
        rp = json.load(open(replay))
        if not rp.get('input'):
            raise core.ToolError('replay file has no input')
        execute([rp['input']], 'replay')
        return core.finish(pid, violations, known_hit, wd)

    consts = job.consts_quick if tier == 'quick' else job.consts_thorough
    cfg = os.path.join(wd, job.mc + '.cfg')
    core.write_cfg(cfg, spec=job.spec_kind, constants=consts, invariants=job.invariants, properties=job.properties)
    if job.extra_mc:
        open(cfg, 'a').write('\n'.join(job.extra_mc) + '\n')
    out, gen, dist = core.run_tlc(job.mc, cfg, wd, workers=job.mc_workers, timeout=3000)
    v = core.tlc_violation(out)
    if v:
        raise core.ToolError('%s: %s violated on the specification itself (spec defect):\n%s' % (job.mc, v, out[-3000:]))
    stats['generated'] += gen
    stats['distinct'] += dist
    # further design-level models of the same property (refinements checked on the specification only; their link to the code is
    # the trace validation below): (module, {tier: [constants, ...]}, invariants)
    for dm_module, dm_consts, dm_invs in job.design_mc:
        for k, c in enumerate(dm_consts[tier]):
            dcfg = os.path.join(wd, '%s_%d.cfg' % (dm_module, k))
            core.write_cfg(dcfg, spec='Spec', constants=c, invariants=dm_invs)
            o2, g2, d2 = core.run_tlc(dm_module, dcfg, wd, workers=job.mc_workers, timeout=3000)
            v2 = core.tlc_violation(o2)
            if v2:
                raise core.ToolError('%s: %s violated on the specification itself (spec defect):\n%s' % (dm_module, v2, o2[-3000:]))
            stats['generated'] += g2
            stats['distinct'] += d2
            notes.setdefault('design_models', []).append({'module': dm_module, 'constants': {a: str(b) for a, b in c.items()},
                                                          'states_generated': g2, 'distinct_states': d2, 'checked': list(dm_invs)})
    inputs = core.extract_lines(out, job.tag)
    for i, x in enumerate(inputs):
        x['id'] = 'm%d' % i
    notes['model_checking'] = {'module': job.mc, 'constants': {k: str(x) for k, x in consts.items()}, 'states_generated': gen,
                               'distinct_states': dist, 'cases_emitted': len(inputs), 'checked': list(job.invariants) + list(job.properties)}
    if not inputs:
        raise core.ToolError('%s emitted no cases' % job.mc)
    execute(inputs, 'spec_generated')
    if job.extra:
        extra = job.extra(tier, seed)
        for i, x in enumerate(extra):
            x['id'] = 'r%d' % i
        if extra:
            execute(extra, 'seeded')

    cov = {'states': stats['distinct'], 'transitions': stats['generated'], 'traces_validated_against_impl': stats['events'],
           'samples': samples[:4], 'details': notes, 'evaluations': stats['events'], 'distinct_nontrivial': stats['events'],
           'rule': job.describe, 'exhaustive': False, 'known_findings_hit': sorted(known_hit)}
    code = core.finish(pid, violations, known_hit, wd)
    core.write_evidence(pid, tier, seed, job.level, cov, time.time() - t0, len(violations), list(job.assumptions))
    return code
