"""C11: fragment pool (spec/Defrag.tla).
  1. TLC, exhaustive over all delivery histories within the bound (MC_Defrag): Inv, StepProp, RejectsInconsistent;
  2. spec -> impl: histories from `tlc -simulate` on the same module, executed on a real IpDefragPool,
     every delivery's result + pool occupancy (hook H3) validated step by step by Trace_Defrag;
  3. impl -> spec: seeded long histories with larger datagrams (permutations, duplicates, interleavings,
     conflicting / oversized fragments, buffer reuse), validated the same way."""
import json, os, random, time
from . import core


# which real stream identities the three model streams get: neighbouring tuples differ in exactly ONE component
# (identification, protocol, VLAN id, channel, source, destination, IPv4 vs IPv6, upper 16 bits of the IPv6 identification,
# one id of a VLAN stack with or without a MACsec tag between the tags)
PAIRS = [[0, 1, 2], [0, 3, 4], [0, 5, 10], [6, 7, 8], [6, 11, 12], [6, 13, 0], [3, 9, 0], [1, 10, 5], [11, 12, 13], [6, 0, 2], [7, 6, 11], [4, 0, 10],
         # VLAN stacks and MACsec tags (tuples 14..28 of the harness): all VLAN ids of the packet belong to the identity, wherever a MACsec tag sits
         # (the position of the MACsec tag itself is not part of the identity: the three tuples of a row differ in their VLAN id lists)
         [14, 15, 16], [14, 17, 3], [18, 19, 3], [20, 21, 24], [22, 23, 3], [18, 21, 23], [26, 27, 28], [26, 14, 3], [25, 6, 24], [19, 16, 17]]


def mc(tier, wd):
    cfg = os.path.join(wd, 'MC_Defrag.cfg')
    consts = {'Streams': '{1, 2}', 'Len0': None, 'L1': 19, 'L2': 16, 'L3': 8, 'MaxDeliveries': 5 if tier == 'quick' else 7,
              'MaxGen': 2, 'DevEndBeforeData': 'FALSE'}
    lines = ['SPECIFICATION MCSpec', 'CONSTANT Len0 <- MCLen0']
    for k, v in consts.items():
        if v is not None:
            lines.append('CONSTANT %s = %s' % (k, v))
    lines += ['INVARIANT Inv', 'PROPERTY StepProp', 'PROPERTY RejectsInconsistent', 'VIEW View', 'CHECK_DEADLOCK FALSE']
    open(cfg, 'w').write('\n'.join(lines) + '\n')
    out, gen, dist = core.run_tlc('MC_Defrag', cfg, wd, workers=8, timeout=3000)
    return out, gen, dist, consts


def simulate(tier, seed, wd):
    cfg = os.path.join(wd, 'Sim_Defrag.cfg')
    lens = [19, 16, 27]
    lines = ['SPECIFICATION SimSpec', 'CONSTANT Len0 <- MCLen0', 'CONSTANT Streams = {1, 2, 3}', 'CONSTANT L1 = %d' % lens[0],
             'CONSTANT L2 = %d' % lens[1], 'CONSTANT L3 = %d' % lens[2], 'CONSTANT MaxDeliveries = 10', 'CONSTANT MaxGen = 3',
             'CONSTANT DevEndBeforeData = FALSE', 'INVARIANT Inv', 'INVARIANT EmitHist', 'CHECK_DEADLOCK FALSE']
    open(cfg, 'w').write('\n'.join(lines) + '\n')
    num = 300 if tier == 'quick' else 6000
    out, gen, dist = core.run_tlc('MC_Defrag', cfg, wd, workers=1, timeout=3000,
                                  extra_args=['-simulate', 'num=%d' % num, '-depth', '40', '-seed', str(seed)], xmx='2g')
    hs = core.extract_lines(out, 'HIST')
    uniq = {}
    for h in hs:
        uniq[json.dumps(h)] = h
    m = re_states(out)
    return list(uniq.values()), lens, m


def re_states(out):
    import re
    m = re.search(r'The number of states generated: (\d+)', out)
    return int(m.group(1)) if m else 0


def random_histories(seed, n, rnd_lens):
    """long seeded histories for bigger datagrams: consistent cuts in random order with duplicates,
    interleaved streams, inconsistent fragments, evictions, buffer returns"""
    r = random.Random(seed)
    res = []
    for h in range(n):
        lens = [r.choice(rnd_lens) for _ in range(3)]
        ops = []
        pending = []
        for s in (1, 2, 3):
            for rep in range(r.choice([1, 1, 2])):
                L = lens[s - 1]
                units = (L + 7) // 8
                cuts = sorted(set([0, units] + [r.randrange(1, units) for _ in range(r.randrange(0, 4)) if units > 1]))
                frs = []
                for a, c in zip(cuts, cuts[1:]):
                    end = min(8 * c, L)
                    frs.append({'op': 'deliver', 's': s, 'off': 8 * a, 'len': end - 8 * a, 'mf': 1 if end < L else 0})
                if len(frs) == 1:      # unfragmented: must be split to be a fragment at all
                    if L > 8:
                        frs = [{'op': 'deliver', 's': s, 'off': 0, 'len': 8, 'mf': 1}, {'op': 'deliver', 's': s, 'off': 8, 'len': L - 8, 'mf': 0}]
                    else:
                        frs = [{'op': 'pass', 's': s, 'off': 0, 'len': L, 'mf': 0}]
                r.shuffle(frs)
                frs += [dict(f) for f in frs if r.random() < 0.2]      # duplicates
                pending.append(frs)
        # interleave: per stream order is kept only within one datagram instance list
        while pending:
            i = r.randrange(len(pending))
            ops.append(pending[i].pop(0))
            if not pending[i]:
                pending.pop(i)
            x = r.random()
            s = r.choice([1, 2, 3])
            L = lens[s - 1]
            if x < 0.05:
                ops.append({'op': 'deliver', 's': s, 'off': 8 * r.randrange(0, 4), 'len': r.choice([1, 3, 5, 7, 9]), 'mf': 1})
            elif x < 0.08:
                ops.append({'op': 'deliver', 's': s, 'off': 8 * ((L + 7) // 8) + 8 * r.randrange(0, 3), 'len': 8, 'mf': r.choice([0, 1])})
            elif x < 0.11:
                ops.append({'op': 'deliver', 's': s, 'off': 8 * r.randrange(0, max(1, (L + 7) // 8)), 'len': r.choice([0, 8, 4]), 'mf': 0})
            elif x < 0.14:
                ops.append({'op': 'evict', 's': s, 'off': 0, 'len': 0, 'mf': 0})
            elif x < 0.2:
                ops.append({'op': 'return', 's': 0, 'off': 0, 'len': 0, 'mf': 0})
            elif x < 0.23:
                ops.append({'op': 'pass', 's': s, 'off': 0, 'len': 8, 'mf': 0})
            elif x < 0.24:
                ops.append({'op': 'deliver', 's': s, 'off': 65528, 'len': 8, 'mf': 1})
        ops = [o for o in ops if not (o['op'] == 'deliver' and o['off'] == 0 and o['mf'] == 0)]
        res.append({'lens': lens, 'ops': ops})
    return res


def run(pid, tier, seed, replay=None):
    t0 = time.time()
    wd = core.workdir(pid)
    binary = core.build_harness()
    consts = {'KnownDev': '{}', 'Streams': '{1, 2, 3}', 'Len0': None, 'DevEndBeforeData': 'FALSE'}
    violations, samples, notes = [], [], {}
    stats = {'generated': 0, 'distinct': 0, 'events': 0, 'histories': 0}

    def tconsts():
        return {'KnownDev': '{}', 'Streams': '{1, 2, 3}', 'DevEndBeforeData': 'FALSE'}

    def execute(hists, label):
        """hists: list of dict(lens, ops[, map]) -> validated"""
        inp = os.path.join(wd, label + '_in.ndjson')
        with open(inp, 'w') as f:
            for i, h in enumerate(hists):
                h = dict(h)
                h['id'] = '%s%d' % (label[0], i)
                h.setdefault('map', PAIRS[i % len(PAIRS)])
                if len(set(h['map'])) < 3:
                    h['map'] = [0, 1, 2]
                hists[i] = h
                f.write(json.dumps(h) + '\n')
        trace = os.path.join(wd, label + '_trace.ndjson')
        crashes = core.run_drive(binary, ['defrag-run', '--in', inp], trace, wd)
        byid = {h['id']: h for h in hists}
        for c in crashes:
            violations.append({'class': 'crash|' + c['signal'], 'summary': 'fatal %s in history %s' % (c['signal'], c['id']),
                               'kind': 'defrag', 'property': pid, 'history': byid.get(c['id']), 'stderr': c['stderr']})
        # Trace_Defrag needs Len0 overridden
        cfg_consts = tconsts()
        cfgpath = os.path.join(wd, 'Trace_Defrag.cfg')
        res = validate(trace, cfgpath, cfg_consts)
        stats['generated'] += res['generated']
        stats['distinct'] += res['distinct']
        stats['events'] += res['events']
        stats['histories'] += len(hists)
        notes[label] = {'histories': len(hists), 'events': res['events'], 'mismatches': len(res['bad'])}
        for eid, tag in res['bad']:
            hid = eid.split('.')[0]
            if tag.startswith('SPEC.'):
                raise core.ToolError('specification invariant failed while following a real execution: %s %s' % (eid, tag))
            violations.append({'class': tag.split(':')[0], 'summary': 'history %s, operation %s: %s' % (hid, eid, tag),
                               'kind': 'defrag', 'property': pid, 'tag': tag, 'at': eid, 'history': byid.get(hid)})
        for h in hists[:2]:
            samples.append({'source': label, 'lens': h['lens'], 'map': h['map'], 'ops': h['ops'][:12], 'n_ops': len(h['ops'])})
        os.remove(trace)

    def validate(trace, cfgpath, cfg_consts):
        # like core.validate_trace but with the Len0 override line
        orig = core.write_cfg

        def wc(path, **kw):
            orig(path, **kw)
            s = open(path).read()
            open(path, 'w').write('CONSTANT Len0 <- TLen0\n' + s)
        core.write_cfg = wc
        try:
            return core.validate_trace('Trace_Defrag', trace, wd, cfg_consts, shards=8, timeout=3000,
                                       group_key=lambda e: e['id'].split('.')[0])
        finally:
            core.write_cfg = orig

    if replay:
        rp = json.load(open(replay))
        execute([rp['history']], 'replay')
        return core.finish(pid, violations, set(), wd)

    out, gen, dist, mcc = mc(tier, wd)
    v = core.tlc_violation(out)
    if v:
        raise core.ToolError('MC_Defrag: %s violated on the specification (spec defect):\n%s' % (v, out[-3000:]))
    stats['generated'] += gen
    stats['distinct'] += dist
    notes['model_checking'] = {'module': 'MC_Defrag', 'constants': {k: str(x) for k, x in mcc.items() if x is not None},
                               'states_generated': gen, 'distinct_states': dist, 'exhaustive_within_bound': True,
                               'checked': ['Inv (NoLeak, Released, SectionsCanonical, RangesHoldData, NoMix)', 'StepProp (ReturnExact, NoEarlyReturn, real fragments never rejected)', 'RejectsInconsistent']}
    hs, lens, simstates = simulate(tier, seed, wd)
    stats['generated'] += simstates
    if not hs:
        raise core.ToolError('simulation produced no histories')
    execute([{'lens': lens, 'ops': h} for h in hs], 'sim')
    n = 300 if tier == 'quick' else 6000
    execute(random_histories(seed * 7 + 1, n, [16, 19, 24, 27, 40, 100, 1480, 2000]), 'rnd')

    cov = {'states': stats['distinct'], 'transitions': stats['generated'], 'traces_validated_against_impl': stats['histories'],
           'operations_validated': stats['events'], 'samples': samples[:4], 'details': notes, 'exhaustive': False,
           'evaluations': stats['events'], 'distinct_nontrivial': stats['histories'],
           'rule': 'one evaluation = one pool operation whose result and occupancy were compared with the model; a history is one distinct TLC-simulated or seeded delivery sequence'}
    code = core.finish(pid, violations, set(), wd)
    core.write_evidence(pid, tier, seed, 'model_checking', cov, time.time() - t0, len(violations),
                        ['datagram lengths <= 27 bytes in the exhaustive and simulated part, up to 2000 bytes in seeded histories',
                         'allocation failure (try_reserve) is not injected', 'result buffers are poisoned by the harness before return_buf so that leaks are recognisable'])
    return code
