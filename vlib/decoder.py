"""C01-C07: the layered decoder machine (spec/Decoder.tla).

pipeline(tier, seed):
  1. TLC on MC_Decoder: design invariants in every state of every run over the recipe space,
     relations between the parameterisations, and one INPUT line per explored input;
  2. spec -> impl: the INPUT lines are executed by the real crate (all 26 entry points, two guard page
     placements) and the recorded results validated by Trace_Decoder;
  3. impl -> spec: seeded damaged packets / noise recorded from the real crate, validated the same way;
  4. every mismatch <<event, run, tag>> is attributed to the property it violates.
"""
import json, os, time
from . import core

APIS = {}  # name -> (m, fam, entry, upto), filled from the trace itself


def attribute(tag, run, sibling_clean):
    """property ids a mismatch tag of one run counts for"""
    m, fam = run['m'], run['fam']
    if tag == 'panic':
        # a panic is a totality violation (C02); where the reference predicts a result it is also a wrong result of that decoder family
        if fam == 'sweep':
            return ['C02']
        return ['C02'] + ((['C04'] + (['C05'] if m == 'lax' else [])) if fam == 'struct' else (['C03'] if m == 'strict' else ['C05']))
    if tag in ('oob', 'placement') or tag.startswith('c01.'):
        return ['C01']
    if tag.startswith('c04.'):
        return ['C04']
    if tag.startswith('c05.'):
        return ['C05']
    if tag.startswith('c02.'):
        return ['C02']
    if tag.startswith('c06.'):
        return ['C06']
    if tag == 'err.content':
        # the report does not describe a fault that is present in the bytes (C07); for a lax decoder this is also "records the fault as
        # stop error on the layer where it occurred" (C05)
        return ['C07'] + (['C05'] if m == 'lax' else [])
    if tag.startswith('c07.'):
        return ['C07']
    if tag.startswith('SPEC.'):
        return ['SPEC']
    if tag == 'err.stoplayer':
        # the layer reported next to a lax stop error: "records the fault on the layer where it occurred" (C05) and
        # "names the layer that actually failed" (C07)
        return ['C05', 'C07']
    # verdict, layers.*, layer.*, pay.*, err.spurious, err.missing, err.stoplayer: observation vs reference
    if fam == 'struct':
        # the struct family is judged against the slice family (C04); a disagreement with the reference
        # counts for C04 only if the slice family itself follows the reference on this input
        props = ['C04'] if sibling_clean else []
        if m == 'lax':
            props.append('C05')
        return props
    return ['C03'] if m == 'strict' else ['C05']


def load_events(path):
    ev = {}
    for line in open(path):
        if line.strip():
            e = json.loads(line)
            ev[e['id']] = e
    return ev


def directed_inputs(tier):
    """packets aimed at what lies BEHIND the last byte: a TCP header without payload whose option area ends with an option of every kind
    and every announced length (so that whatever an iterator reads behind the option lies behind the input, i.e. on the guard page),
    the same behind IPv4 and IPv6."""
    out = []
    eth = [2, 0, 0, 0, 0, 1, 2, 0, 0, 0, 0, 2]

    def tcp(opts):
        doff = 5 + len(opts) // 4
        return [0, 80, 0x1f, 0x90, 0, 0, 0, 1, 0, 0, 0, 2, doff << 4, 0x10, 1, 0, 0, 0, 0, 0] + opts
    sizes = (12, 16, 24, 40) if tier == 'quick' else (4, 8, 12, 16, 20, 24, 28, 32, 36, 40)
    kinds = (5, 8, 2, 77) if tier == 'quick' else (2, 3, 4, 5, 8, 0, 77)
    for n in sizes:
        # the kind byte alone as the very last byte of the option area
        for k in (2, 3, 4, 5, 8, 77):
            t = tcp([1] * (n - 1) + [k])
            v4 = [0x45, 0, (20 + len(t)) >> 8, (20 + len(t)) & 255, 0, 1, 0x40, 0, 64, 6, 0, 0, 10, 0, 0, 1, 10, 0, 0, 2]
            out.append({'bytes': eth + [8, 0] + v4 + t, 'plan': [['eth', 0, 0], ['ether', 0x0800, 14], ['ip', 0, 14], ['ipv4', 0, 14]]})
        for k in kinds:
            for ln in range(0, n + 3):
                room = min(max(ln, 2), n)
                opts = [1] * (n - room) + [k, ln] + [(7 * i + k) % 251 for i in range(room - 2)]
                t = tcp(opts[:n])
                v4 = [0x45, 0, (20 + len(t)) >> 8, (20 + len(t)) & 255, 0, 1, 0x40, 0, 64, 6, 0, 0, 10, 0, 0, 1, 10, 0, 0, 2]
                out.append({'bytes': eth + [8, 0] + v4 + t, 'plan': [['eth', 0, 0], ['ether', 0x0800, 14], ['ip', 0, 14], ['ipv4', 0, 14]]})
                if (n, k) in ((16, 5), (40, 5), (24, 8)) or tier != 'quick':
                    v6 = [0x60, 0, 0, 0, len(t) >> 8, len(t) & 255, 6, 64] + [0xfd] + [0] * 14 + [1] + [0xfd] + [0] * 14 + [2]
                    out.append({'bytes': eth + [0x86, 0xdd] + v6 + t, 'plan': [['eth', 0, 0], ['ether', 0x86dd, 14], ['ip', 0, 14], ['ipv6', 0, 14]]})
    # RFC 2675 jumbo payload option behind a zero payload length, announcing a little less / exactly / a little more than what follows the
    # IPv6 header (the crate documents that it does not interpret the option: the payload reaches to the end of the slice)
    v6h = [0x60, 0, 0, 0, 0, 0, 0, 64] + [0xfd] + [0] * 14 + [1] + [0xfd] + [0] * 14 + [2]
    body = [0, 53, 0x30, 0x39, 0, 20, 0, 0] + list(range(1, 13))
    for k in (-9, -8, -1, 0, 1, 7, 8, 39, 40, 41, 48, 65508):
        n = 8 + len(body) + k
        hbh = [17, 0, 0xc2, 4, (n >> 24) & 255, (n >> 16) & 255, (n >> 8) & 255, n & 255]
        out.append({'bytes': eth + [0x86, 0xdd] + v6h + hbh + body, 'plan': [['eth', 0, 0], ['ether', 0x86dd, 14], ['ip', 0, 14], ['ipv6', 0, 14]]})
    # inputs around 2^16 bytes: the largest IPv6 payload length / IPv4 total length values against slices that hold a little less / exactly /
    # a little more than what they announce (40 + payload length does not fit 16 bits; arithmetic slips only show on slices this long)
    def filler(n):
        return [(i * 7 + 3) % 251 for i in range(n)]
    big = []
    for pl in ((65496, 65535) if tier == 'quick' else (65495, 65496, 65497, 65500, 65527, 65528, 65534, 65535)):
        for n in sorted({65535, 65536, 40 + pl - 1, 40 + pl, 40 + pl + 3} if tier == 'quick' else {65534, 65535, 65536, 65537, 40 + pl - 8, 40 + pl - 1, 40 + pl, 40 + pl + 1, 40 + pl + 9}):
            ul = min(pl, 65535)
            v6 = [0x60, 0, 0, 0, pl >> 8, pl & 255, 17, 64] + [0xfd] + [0] * 14 + [1] + [0xfd] + [0] * 14 + [2]
            u = [0, 53, 0x30, 0x39, ul >> 8, ul & 255, 0, 0]
            big.append((0x86dd, (v6 + u + filler(n - 48))[:n], 'ipv6'))
    for tl in ((65535,) if tier == 'quick' else (65534, 65535)):
        for n in (tl - 1, tl, tl + 5):
            v4 = [0x45, 0, tl >> 8, tl & 255, 0, 1, 0x40, 0, 64, 17, 0, 0, 10, 0, 0, 1, 10, 0, 0, 2]
            ul = tl - 20
            u = [0, 53, 0x30, 0x39, ul >> 8, ul & 255, 0, 0]
            big.append((0x0800, (v4 + u + filler(n - 28))[:n], 'ipv4'))
    for et, body, kind in big:
        out.append({'bytes': eth + [et >> 8, et & 255] + body, 'plan': [['eth', 0, 0], ['ether', et, 14], ['ip', 0, 14], [kind, 0, 14]]})
    # Linux SLL: every ARP hardware id the crate has a name for (5 of them are documented as supported) and the neighbours of the supported
    # ones, with an IPv4 / UDP packet behind the header; every packet type 0..=8
    named = list(range(0, 39)) + [256, 257, 258, 259, 260, 264, 270, 271, 272, 280, 512, 513, 516, 517, 518, 519] + list(range(768, 788)) + list(range(800, 806)) + list(range(820, 827))
    hws = named if tier != 'quick' else [0, 1, 2, 6, 24, 32, 256, 512, 768, 769, 770, 771, 772, 773, 776, 777, 778, 779, 783, 801, 802, 803, 804, 823, 824, 825, 826, 65535]
    udp = [0, 53, 0x30, 0x39, 0, 12, 0, 0, 1, 2, 3, 4]
    v4 = [0x45, 0, 0, 32, 0, 1, 0x40, 0, 64, 17, 0, 0, 10, 0, 0, 1, 10, 0, 0, 2]
    for hw in hws:
        for pt in ((0, 4) if tier == 'quick' else range(0, 9)):
            out.append({'bytes': [0, pt, hw >> 8, hw & 255, 0, 6, 1, 2, 3, 4, 5, 6, 0, 0, 8, 0] + v4 + udp, 'plan': [['sll', 0, 0]]})
    return out


def mc_inputs(tier, wd, cutmode):
    cfg = os.path.join(wd, 'MC_Decoder.cfg')
    core.write_cfg(cfg, spec='Spec', constants={'Tier': '"%s"' % tier, 'CutMode': '"%s"' % cutmode},
                   invariants=['Design', 'Progress', 'RelLax', 'RelStruct', 'RelShift', 'RelFail', 'Emit'])
    out, gen, dist = core.run_tlc('MC_Decoder', cfg, wd, workers=8, timeout=3000 if tier == 'thorough' else 900)
    viol = core.tlc_violation(out)
    inputs = core.extract_lines(out, 'INPUT')
    path = os.path.join(wd, 'mc_inputs.ndjson')
    directed = directed_inputs(tier)
    with open(path, 'w') as f:
        for i, x in enumerate(inputs):
            x['id'] = 'm%d' % i
            f.write(json.dumps(x) + '\n')
        for i, x in enumerate(directed):
            x['id'] = 'd%d' % i
            f.write(json.dumps(x) + '\n')
    return {'generated': gen, 'distinct': dist, 'violated': viol, 'inputs': path, 'n': len(inputs) + len(directed), 'out': out}


def classify(res, events, pid):
    """res: validate_trace result -> list of violation dicts for property pid (and SPEC errors)"""
    # which (event, run) have non-relational, non-error-content mismatches? (for sibling_clean)
    dirty = set()
    for eid, ri, tag in res['bad']:
        if not tag.startswith('c0') and tag not in ('err.content', 'panic', 'oob', 'placement'):
            dirty.add((eid, ri))
    viols, spec_errs = [], []
    for eid, ri, tag in res['bad']:
        e = events[eid]
        run = e['runs'][ri - 1]
        sib_clean = True
        if run['fam'] == 'struct':
            for j, r2 in enumerate(e['runs']):
                if r2['fam'] == 'slice' and r2['m'] == run['m'] and r2['entry'] == run['entry'] and r2['skip'] == run['skip'] \
                        and r2['upto'] == run['upto'] and r2['et'] == run['et'] and (eid, j + 1) in dirty:
                    sib_clean = False
        props = attribute(tag, run, sib_clean)
        if tag == 'panic' and run['fam'] == 'slice':
            # the slicing result does not exist while the struct decoder of the same door answers: the two families do not agree (C04)
            for r2 in e['runs']:
                if r2['fam'] == 'struct' and r2['m'] == run['m'] and r2['entry'] == run['entry'] and r2['skip'] == run['skip'] \
                        and r2['upto'] == run['upto'] and r2['et'] == run['et'] and r2.get('res', {}).get('v') != 'panic':
                    props = props + ['C04']
                    break
        if 'SPEC' in props:
            spec_errs.append((eid, run['api'], tag))
        if pid in props:
            viols.append({
                'class': '%s|%s' % (run['api'], tag),
                'summary': '%s: %s on input %s (%d bytes, slice starts at %d)' % (run['api'], tag, eid, len(e['bytes']), run['skip']),
                'kind': 'decode', 'property': pid, 'tag': tag, 'api': run['api'],
                'input': {'id': eid, 'bytes': e['bytes'],
                          'plan': sorted({(r['entry'], max(r['et'], 0), r['skip']) for r in e['runs']})},
                'observed': run['res'],
            })
    return viols, spec_errs


def crash_violations(crashes, pid, inputs_by_id):
    v = []
    for c in crashes:
        # a fatal signal is an access outside the input / undefined behaviour caught by a precondition check (C01) and a decoder that did
        # not return (C02); the entry point that was running gave no answer at all where the reference decoder prescribes one, which also
        # contradicts the property of its family: strict slicing (C03), header structs (C04), lax decoders (C05)
        api = (c.get('api') or '').split('|')
        props = {'C01', 'C02'}
        if len(api) == 3 and not api[0].startswith('sweep'):
            if api[1] == 'strict' and api[2] == 'slice':
                props.add('C03')
            if api[2] == 'struct':
                props.add('C04')
            if api[1] == 'lax':
                props.add('C05')
        if pid in props:
            v.append({'class': 'crash|' + c['signal'], 'summary': 'fatal %s while decoding input %s%s: %s' % (c['signal'], c['id'], (' in ' + api[0]) if api[0] else '', c['stderr'][-300:].replace('\n', ' | ')),
                      'kind': 'decode', 'property': pid, 'tag': 'crash', 'input': inputs_by_id.get(c['id'], {'id': c['id']}), 'stderr': c['stderr']})
    return v


def run(pid, tier, seed, replay=None):
    t0 = time.time()
    wd = core.workdir(pid)
    binary = core.build_harness()
    kf = core.known_findings()
    consts = {'KnownDev': core.tla_set(core.known_dev_ids(kf))}
    violations, known_hit = [], set()
    sweep = ['--sweep', '1'] if pid in ('C01', 'C02', 'C06') else []   # accessor sweep of all single-layer decoders
    stats = {'generated': 0, 'distinct': 0, 'events': 0, 'runs': 0}
    samples = []
    notes = {}

    def validate(trace, label):
        if not os.path.exists(trace) or os.path.getsize(trace) == 0:
            if violations:
                return {}        # every case crashed: the crashes are the result
            raise core.ToolError('no trace events recorded (%s)' % label)
        res = core.validate_trace('Trace_Decoder', trace, wd, consts, shards=8, timeout=3000)
        events = load_events(trace)
        v, spec_errs = classify(res, events, pid)
        if spec_errs:
            raise core.ToolError('the reference decoder violates its own design invariants: %r' % spec_errs[:3])
        violations.extend(v)
        known_hit.update(k[3:] for k in res['known'])
        stats['generated'] += res['generated']
        stats['distinct'] += res['distinct']
        stats['events'] += res['events']
        stats['runs'] += sum(len(e['runs']) for e in events.values())
        notes[label] = {'events': res['events'], 'mismatches_all_properties': len(res['bad'])}
        for e in list(events.values())[:2]:
            r0 = e['runs'][0] if e['runs'] else {}
            samples.append({'source': label, 'id': e['id'], 'bytes': e['bytes'][:48], 'n_bytes': len(e['bytes']),
                            'apis': [r['api'] for r in e['runs']][:6],
                            'first_result': {'api': r0.get('api'), 'v': r0.get('res', {}).get('v'),
                                             'layers': [[l['k'], l['off'], l['hlen']] for l in r0.get('res', {}).get('layers', [])],
                                             'err': r0.get('res', {}).get('err')}})
        return events

    if replay:
        rp = json.load(open(replay))
        if rp.get('kind') == 'io-run':
            from . import iojob
            return iojob.run(pid, tier, seed, replay)
        inp = os.path.join(wd, 'replay_in.ndjson')
        x = rp['input']
        if 'bytes' not in x:
            raise core.ToolError('replay file has no input bytes')
        open(inp, 'w').write(json.dumps({'id': x['id'], 'bytes': x['bytes'], 'plan': x.get('plan', [['eth', 0, 0]])}) + '\n')
        trace = os.path.join(wd, 'replay_trace.ndjson')
        crashes = core.run_drive(binary, ['decode-in', '--in', inp] + sweep, trace, wd)
        violations.extend(crash_violations(crashes, pid, {x['id']: x}))
        if not crashes:
            validate(trace, 'replay')
        return core.finish(pid, violations, known_hit, wd)

    # 1. model checking of the spec + input enumeration
    cutmode = 'all' if tier == 'thorough' else 'edges'
    mc = mc_inputs(tier, wd, cutmode)
    stats['generated'] += mc['generated']
    stats['distinct'] += mc['distinct']
    if mc['violated']:
        raise core.ToolError('MC_Decoder: %s violated on the specification itself (spec defect):\n%s' % (mc['violated'], mc['out'][-3000:]))
    notes['model_checking'] = {'module': 'MC_Decoder', 'tier': tier, 'cut_mode': cutmode, 'states_generated': mc['generated'],
                               'distinct_states': mc['distinct'], 'inputs_emitted': mc['n'],
                               'invariants': ['Design(InBounds,Tiling,PayloadWithinWindow,LayerBound,ErrShape)', 'Progress', 'RelLax', 'RelStruct', 'RelShift', 'RelFail']}
    # 2. spec -> impl -> spec
    inputs_by_id = {}
    for line in open(mc['inputs']):
        x = json.loads(line)
        inputs_by_id[x['id']] = x
    trace = os.path.join(wd, 'mc_trace.ndjson')
    crashes = core.run_drive(binary, ['decode-in', '--in', mc['inputs']] + sweep, trace, wd)
    violations.extend(crash_violations(crashes, pid, inputs_by_id))
    validate(trace, 'spec_generated_inputs')
    os.remove(trace)
    # 3. impl -> spec
    n = 1500 if tier == 'quick' else 30000
    trace = os.path.join(wd, 'gen_trace.ndjson')
    pseed = seed * 100 + int(pid[1:])
    crashes = core.run_drive(binary, ['decode-gen', '--seed', str(pseed), '--n', str(n)] + sweep, trace, wd)
    violations.extend(crash_violations(crashes, pid, {}))
    validate(trace, 'recorded_damaged_packets')
    os.remove(trace)

    if pid == 'C01':
        # release pass: with overflow checks and debug assertions OFF arithmetic slips wrap instead of panicking, so that what
        # a debug build reports as a panic (C02) becomes a real access outside the slice: guard page, range check, placement
        rbin = core.build_harness(release=True)
        trace = os.path.join(wd, 'rel_trace.ndjson')
        crashes = core.run_drive(rbin, ['decode-in', '--in', mc['inputs']] + sweep, trace, wd)
        violations.extend(crash_violations(crashes, pid, inputs_by_id))
        validate(trace, 'spec_generated_inputs_release_build')
        os.remove(trace)
        crashes = core.run_drive(rbin, ['decode-gen', '--seed', str(pseed), '--n', str(n)] + sweep, trace, wd)
        violations.extend(crash_violations(crashes, pid, {}))
        validate(trace, 'recorded_damaged_packets_release_build')
        os.remove(trace)

    if pid in ('C06', 'C07'):
        # second half of C06: reading a header from io::Read == decoding it from a slice (13 header types, every fault position);
        # for C07 the same pipeline judges the fields of the length errors the readers return
        from . import iojob
        v2, st2, notes2, samples2 = iojob.run_io(pid, tier, seed, wd, binary)
        violations.extend(v2)
        stats['generated'] += st2['generated']
        stats['distinct'] += st2['distinct']
        stats['events'] += st2['events']
        stats['runs'] += st2['faults']
        notes['reader_vs_slice'] = notes2
        samples.extend(samples2[:1])
    cov = {
        'states': stats['distinct'], 'transitions': stats['generated'],
        'traces_validated_against_impl': stats['events'],
        'api_runs_validated': stats['runs'],
        'samples': samples[:4],
        'evaluations': stats['runs'], 'distinct_nontrivial': stats['events'],
        'rule': 'one evaluation = one decoding entry point run on one input (at two guard-page placements); an input is '
                'non-trivial/distinct = a distinct recipe x truncation point emitted by MC_Decoder, or a seeded damaged packet',
        'exhaustive': False,
        'details': notes,
        'known_findings_hit': sorted(known_hit),
    }
    code = core.finish(pid, violations, known_hit, wd)
    core.write_evidence(pid, tier, seed, 'model_checking', cov, time.time() - t0, len(violations),
                        ['TLA+ reference decoder transcribed from the RFCs/IEEE formats is the oracle',
                         'inputs <= ~250 bytes from the recipe space plus seeded damaged stackings; longer inputs only sampled',
                         'UB that neither leaves the input (guard pages), nor trips a debug precondition check, nor changes a result is not observable'])
    return code
