"""I/O faults (C16) and reader-vs-slice agreement (C06 second half).
   byte strings = encodings of the MC_Wire values (a spread over all kinds and length classes) plus damaged
   variants (version / IHL / data offset / packet type / hardware type / length bytes), executed by `drive io-run`
   and validated by Trace_Io; MC_IoFault model checks the abstract writer / LimitedReader machines."""
import json, os, random, time
from . import core

TYPES = ['iph', 'ext4', 'ext6', 'icmp4', 'eth', 'sll', 'vlan', 'macsec', 'arp', 'ipv4', 'auth', 'ipv6', 'udp', 'tcp', 'frag', 'rawext', 'icmp6']


def tag_props(tag):
    if tag.startswith('read.success_despite_fault') or (tag.startswith('skip.') and tag.endswith('.read.success_despite_fault')):
        return ['C06', 'C16']     # a reader fault that does not surface
    if tag.startswith('read.len_error_fields'):
        return ['C06', 'C07']     # the reader's length error does not describe the fault the slice decoder (and the bytes) show
    if tag.startswith('skip.'):
        return ['C06']            # slice and reader versions of the skip helpers disagree with the format / with each other
    if tag.startswith('read.'):
        return ['C06']            # reader and slice decoder disagree (verdict, reason, value, bytes consumed)
    if tag.startswith('slice.'):
        return ['C06']
    if tag.startswith('panic'):
        return ['C16', 'C02']
    return ['C16']


import itertools


def cases(wire_cases, tier, seed):
    r = random.Random(seed * 29 + 16)
    per = {}
    for c in wire_cases:
        if c['kind'] == 'value' or c['bytes']:
            per.setdefault(c['type'], []).append(c['enc'])
    out = []
    cap = 40 if tier == 'quick' else 600
    for ty, encs in per.items():
        bylen = {}
        for e in encs:
            bylen.setdefault(len(e), []).append(e)
        pick = []
        for ln, es in bylen.items():
            if ln > 300 and tier == 'quick':
                continue           # every k of a 2 kB header: thorough tier only
            r.shuffle(es)
            pick.extend(es[:max(2, cap // max(1, len(bylen)))])
        for b in pick:
            out.append({'type': ty, 'bytes': b})
            # damaged variants of control bytes
            for _ in range(2):
                d = list(b)
                if not d:
                    continue
                i = r.choice([0, 0, 1, 1, 2, 4, 5, 12, 13])
                if i < len(d):
                    d[i] = r.choice([0, 1, 0x41, 0x4f, 0x60, 0x80, 0xc1, 0x45, 0x81, 0xff, d[i] ^ 0x80, d[i] ^ 0x0f])
                    out.append({'type': ty, 'bytes': d})
        # noise
        for _ in range(10 if tier == 'quick' else 200):
            out.append({'type': ty, 'bytes': [r.randrange(256) for _ in range(r.randrange(0, 70))]})
    # multi-part reader / writer: IP header + extension headers (IpHeaders::read / write), total length = headers only
    def auth(nh):
        return [nh, 2, 0, 0, 0, 0, 1, 2, 0, 0, 0, 9, 1, 2, 3, 4]
    for ihl in (5, 6, 10, 15):
        for with_auth in (False, True):
            hl = 4 * ihl
            ext = auth(17) if with_auth else []
            tl = hl + len(ext)
            h = [0x40 | ihl, 0, tl >> 8, tl & 255, 1, 2, 0x40, 0, 64, 51 if with_auth else 17, 0, 0, 10, 0, 0, 1, 10, 0, 0, 2] + [1] * (hl - 20)
            out.append({'type': 'iph', 'bytes': h + ext})
    def ext6(kind, nh):
        if kind == 44:
            return [nh, 0, 0, 0, 0, 0, 0, 7]
        if kind == 51:
            return auth(nh)
        return [nh, 1] + [0] * 14
    iph = []
    for chain in ([], [0], [60], [43], [44], [51], [0, 60, 43, 44, 51, 60], [60, 43, 60], [44, 51], [60, 60], [43, 43], [0, 60, 43, 60, 60], [60, 0], [44, 44], [51, 51], [43, 44, 60, 51]):
        body = []
        nh = 17
        for kind in reversed(chain):
            body = ext6(kind, nh) + body
            nh = kind
        pl = len(body)
        iph.append([0x60, 0, 0, 0, pl >> 8, pl & 255, nh, 64] + list(range(1, 17)) + list(range(101, 117)) + body)
    out.extend({'type': 'iph', 'bytes': x} for x in iph)
    # damaged length / control fields: total length / payload length below, inside and beyond the headers, version, IHL
    for x in [c['bytes'] for c in out if c['type'] == 'iph']:
        v4 = x[0] >> 4 == 4
        lo = 2 if v4 else 4
        ln = (x[lo] << 8) | x[lo + 1]
        for nl in {0, 1, max(0, ln - 1), max(0, ln - 8), ln + 1, ln + 8, 19, 20, 21, 65535}:
            d = list(x)
            d[lo], d[lo + 1] = nl >> 8, nl & 255
            out.append({'type': 'iph', 'bytes': d})
            out.append({'type': 'iph', 'bytes': d + [0xEE] * 9})
        for b0 in (0x44 if v4 else 0x50, 0x00, 0xF5, 0x70):
            out.append({'type': 'iph', 'bytes': [b0] + x[1:]})
        out.append({'type': 'iph', 'bytes': x + [0xEE] * 5})
    # every value of the control bytes of each header kind (incl. reserved bits): the same strings the C08 check decodes and re-encodes
    from . import jobs
    for c in jobs.control_byte_cases(tier, r):
        if len(c['bytes']) <= 300 or tier != 'quick':
            out.append({'type': c['type'], 'bytes': c['bytes']})
    # typed ICMPv4 header: timestamp messages carry 20 bytes
    for t, c0 in ((13, 0), (14, 0), (13, 1), (8, 0), (3, 4), (12, 0), (200, 7)):
        for n in (0, 4, 7, 8, 9, 19, 20, 21, 30):
            out.append({'type': 'icmp4', 'bytes': [t, c0, 1, 2] + [r.randrange(256) for _ in range(max(0, n - 4))] if n >= 4 else [t, c0, 1, 2][:n]})
    # extension header chains behind a first ip number: Ipv6Extensions / Ipv4Extensions read vs from_slice, Ipv6Header::skip_*
    def gen_hdr(kind, nh):
        if kind == 44:
            return [nh, r.choice([0, 9]), r.randrange(256), r.randrange(256)] + [r.randrange(256) for _ in range(4)]
        if kind == 51:
            u = r.choice([1, 1, 2, 4])
            return [nh, u, r.choice([0, 7]), 0] + [r.randrange(256) for _ in range(4 * (u + 2) - 4)]
        u = r.choice([0, 0, 1, 3])
        return [nh, u] + [r.randrange(256) for _ in range(8 * (u + 1) - 2)]
    kinds = [0, 43, 44, 51, 60, 135, 139, 140]
    finals = [6, 17, 58, 59, 0, 50, 253, 41]
    nchains = 60 if tier == 'quick' else 1500
    for i in range(nchains):
        if i < 12:
            chain = [[], [0], [60], [43], [44], [51], [0, 60, 43, 44, 51, 60], [60, 60], [0, 0], [43, 43], [135], [139, 140, 60]][i]
        else:
            chain = [r.choice(kinds) for _ in range(r.randrange(0, 7))]
        fin = r.choice(finals)
        body, nh = [], fin
        for kind in reversed(chain):
            body = gen_hdr(kind, nh) + body
            nh = kind
        body = body + [r.randrange(256) for _ in range(r.choice([0, 0, 3, 9]))]
        out.append({'type': 'ext6', 'start': nh, 'bytes': body})
        if body:
            cut = r.randrange(0, len(body))
            out.append({'type': 'ext6', 'start': nh, 'bytes': body[:cut]})
            d = list(body)
            d[min(1, len(d) - 1)] = r.choice([0, 1, 2, 255])
            out.append({'type': 'ext6', 'start': nh, 'bytes': d[:r.choice([len(d), max(0, len(d) - 5)])]})
    # systematic chains (the random ones above rarely fill every slot of the struct decoders): every presence mask in RFC 8200 order and
    # every order of a chain that fills all five slots behind the hop-by-hop header, each announcing every kind of next header behind
    # its LAST header (a further extension header, hop-by-hop out of place, a transport protocol)
    def chain_case(chain, fin):
        body, nh = [], fin
        for kind in reversed(chain):
            body = gen_hdr(kind, nh) + body
            nh = kind
        return {'type': 'ext6', 'start': nh, 'bytes': body + [r.randrange(256) for _ in range(r.choice([0, 8, 24]))]}
    lasts = (0, 60, 43, 44, 51, 17) if tier == 'quick' else (0, 60, 43, 44, 51, 135, 139, 140, 17, 6, 58, 59, 50)
    for mask in range(64):
        chain = [k for bit, k in enumerate([0, 60, 43, 44, 51, 60]) if mask >> bit & 1]
        for fin in lasts:
            out.append(chain_case(chain, fin))
    perms = sorted(set(itertools.permutations([60, 43, 60, 44, 51])))
    for pi, pm in enumerate(perms):
        for fin in lasts:
            if tier != 'quick' or (pi + fin) % 2 == 0:
                out.append(chain_case(list(pm), fin))
                out.append(chain_case([0] + list(pm), fin))
    for st in (51, 17, 0, 44):
        for u in (0, 1, 2, 5):
            a = [17, u, 0, 0] + [r.randrange(256) for _ in range(max(8, 4 * (u + 2) - 4))]
            for cut in (len(a), 4 * (u + 2), max(0, 4 * (u + 2) - 1), 11, 12, 0):
                out.append({'type': 'ext4', 'start': st, 'bytes': a[:cut]})
    # the LimitedReader machine driven directly: every call sequence of up to 3 calls (read_exact(n), start_layer) for every budget / data length,
    # plus longer seeded sequences
    M = 5 if tier == 'quick' else 7
    alphabet = [[n] for n in range(0, M + 1)] + [[-1]]
    for mx in range(0, M + 1):
        for av in range(0, M + 1):
            for ln in (1, 2, 3):
                for seq in itertools.product(alphabet, repeat=ln):
                    if ln == 3 and tier == 'quick' and r.random() > 0.25:
                        continue
                    out.append({'type': 'lr', 'max': mx, 'avail': av, 'calls': list(seq), 'bytes': []})
    for _ in range(300 if tier == 'quick' else 5000):
        mx, av = r.randrange(0, 200), r.randrange(0, 200)
        out.append({'type': 'lr', 'max': mx, 'avail': av, 'bytes': [], 'calls': [r.choice([[-1], [r.randrange(0, 60)], [r.randrange(0, 20)], [0]]) for _ in range(r.randrange(1, 12))]})
    for i, c in enumerate(out):
        c['id'] = 'i%d' % i
    return out


def run_io(pid, tier, seed, wd, binary):
    notes, samples, violations = {}, [], []
    stats = {'generated': 0, 'distinct': 0, 'events': 0}
    # abstract machines
    cfg = os.path.join(wd, 'MC_IoFault.cfg')
    consts = {'MaxTotal': 6 if tier == 'quick' else 8, 'MaxCalls': 4 if tier == 'quick' else 5}
    core.write_cfg(cfg, spec='Spec', constants=consts, invariants=['PrefixOnly', 'FaultSurfaces', 'NoFalseSuccess', 'NeverOverpulls', 'BudgetConserved'])
    out, gen, dist = core.run_tlc('MC_IoFault', cfg, wd, workers=4, timeout=1200)
    v = core.tlc_violation(out)
    if v:
        raise core.ToolError('MC_IoFault: %s violated on the specification (spec defect)\n%s' % (v, out[-2000:]))
    stats['generated'] += gen
    stats['distinct'] += dist
    notes['model_checking_io_machines'] = {'module': 'MC_IoFault', 'constants': consts, 'states_generated': gen, 'distinct_states': dist}
    # byte strings from the codec value space
    cfg = os.path.join(wd, 'MC_Wire.cfg')
    core.write_cfg(cfg, spec='Spec', constants={'Full': 'FALSE'}, invariants=['RoundTrip', 'LenAnnounced', 'Normalises', 'Emit'])
    out, gen, dist = core.run_tlc('MC_Wire', cfg, wd, workers=8, timeout=1800)
    v = core.tlc_violation(out)
    if v:
        raise core.ToolError('MC_Wire: %s violated on the specification (spec defect)' % v)
    stats['generated'] += gen
    stats['distinct'] += dist
    wire = core.extract_lines(out, 'WIRE')
    cs = cases(wire, tier, seed)
    inp = os.path.join(wd, 'io_in.ndjson')
    with open(inp, 'w') as f:
        for c in cs:
            f.write(json.dumps(c) + '\n')
    trace = os.path.join(wd, 'io_trace.ndjson')
    crashes = core.run_drive(binary, ['io-run', '--in', inp], trace, wd)
    byid = {c['id']: c for c in cs}
    for c in crashes:
        violations.append({'class': 'crash|' + c['signal'], 'summary': 'fatal %s in case %s' % (c['signal'], c['id']), 'kind': 'io-run',
                           'property': pid, 'input': byid.get(c['id']), 'stderr': c['stderr']})
    res = core.validate_trace('Trace_Io', trace, wd, {'KnownDev': '{}'}, shards=8, timeout=3000)
    stats['generated'] += res['generated']
    stats['distinct'] += res['distinct']
    stats['events'] += res['events']
    faults = 0
    for line in open(trace):
        e = json.loads(line)
        faults += len(e.get('reads', [])) + len(e.get('writes', [])) + len(e.get('slices', [])) + len(e.get('limited', [])) + len(e.get('obs', []))
    notes['io_faults'] = {'byte_strings': len(cs), 'fault_positions_executed': faults, 'mismatches_all_properties': len(res['bad'])}
    for eid, tag in res['bad']:
        if pid in tag_props(tag):
            violations.append({'class': tag.split(':')[0] + '|' + byid[eid]['type'], 'summary': 'case %s (%s, %d bytes): %s' % (eid, byid[eid]['type'], len(byid[eid]['bytes']), tag),
                               'kind': 'io-run', 'property': pid, 'tag': tag, 'input': byid[eid]})
    samples = [{'source': 'io', 'case': c} for c in cs[:2]]
    os.remove(trace)
    stats['faults'] = faults
    return violations, stats, notes, samples


def run(pid, tier, seed, replay=None):
    t0 = time.time()
    wd = core.workdir(pid)
    binary = core.build_harness()
    if replay:
        rp = json.load(open(replay))
        if rp.get('kind') == 'build-run':
            from . import simple
            return simple.run_job(builder_job(), pid, tier, seed, replay)
        inp = os.path.join(wd, 'replay_in.ndjson')
        open(inp, 'w').write(json.dumps(rp['input']) + '\n')
        trace = os.path.join(wd, 'replay_trace.ndjson')
        crashes = core.run_drive(binary, ['io-run', '--in', inp], trace, wd)
        viol = [{'class': 'crash', 'summary': 'fatal signal', 'property': pid, 'kind': 'io-run', 'input': rp['input']}] if crashes else []
        if not crashes:
            res = core.validate_trace('Trace_Io', trace, wd, {'KnownDev': '{}'}, shards=1)
            viol = [{'class': t, 'summary': t, 'property': pid, 'kind': 'io-run', 'input': rp['input']} for _, t in res['bad'] if pid in tag_props(t)]
        return core.finish(pid, viol, set(), wd)
    violations, stats, notes, samples = run_io(pid, tier, seed, wd, binary)
    cov = {'evaluations': stats['faults'], 'distinct_nontrivial': stats['events'],
           'rule': 'one evaluation = one operation (read, write, write_to_slice, read_limited) under one fault position / slice length / limit; '
                   'distinct cases = (header type, byte string) pairs, every position 0..=length enumerated for each',
           'samples': samples, 'exhaustive': False, 'states': stats['distinct'], 'transitions': stats['generated'],
           'traces_validated_against_impl': stats['events'], 'details': notes}
    code = core.finish(pid, violations, set(), wd)
    core.write_evidence(pid, tier, seed, 'fault_enumeration', cov, time.time() - t0, len(violations),
                        ['14 header types (incl. the typed ICMPv4 header) + IpHeaders, Ipv4Extensions, Ipv6Extensions (multi-part readers / writers), the Ipv6Header::skip_* helpers and the LimitedReader machine driven directly',
                         'fault model: the sink/source delivers exactly k bytes and then returns an error; short writes/reads before the fault are not modelled separately'])
    # second pipeline: the packet builder as a multi-part writer (failing io::Write at every byte, too-short slices of many lengths)
    from . import simple
    ev1 = json.load(open(core.EVID + '/%s.json' % pid))
    code2 = simple.run_job(builder_job(), pid, tier, seed, None)
    ev2 = json.load(open(core.EVID + '/%s.json' % pid))
    c1, c2 = ev1['coverage'], ev2['coverage']
    for k in ('states', 'transitions', 'traces_validated_against_impl', 'evaluations', 'distinct_nontrivial'):
        c1[k] = c1[k] + c2[k]
    c1['samples'] = c1['samples'][:2] + c2['samples'][:2]
    c1['details'] = {'headers': c1['details'], 'builder': c2['details']}
    c1['rule'] = c1['rule'] + ' | ' + c2['rule']
    ev1['wall_s'] = ev1['wall_s'] + ev2['wall_s']
    ev1['violations'] = ev1['violations'] + ev2['violations']
    ev1['assumptions'] = ev1.get('assumptions', []) + ev2.get('assumptions', [])
    json.dump(ev1, open(core.EVID + '/%s.json' % pid, 'w'), indent=1, sort_keys=True)
    return 1 if 1 in (code, code2) else max(code, code2)


def builder_tags(tag):
    t = tag.split(':')[0]
    return ['C16'] if t.startswith('sinks.') or t.startswith('panic') else []     # (incl. sinks.exact_size_slice)


def builder_job():
    from .simple import Job
    return Job('C16', mc='MC_Builder', tag='BUILD', drive='build-run', trace='Trace_Builder',
               invariants=['TypeState', 'SizeFits', 'Emit'], consts_quick={'Wide': 'FALSE'}, consts_thorough={'Wide': 'TRUE'},
               tag_props=builder_tags, level='fault_enumeration',
               describe='one case = one builder path x payload: write into a sink failing after k bytes (every k) and write_to_slice into too-short slices of many lengths',
               assumptions=['builder sinks: every fault position of the io::Write sink for packets up to 2000 bytes; ~20 short slice lengths per packet'])
