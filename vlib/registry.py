def module_for(pid):
    if pid in ('C01', 'C02', 'C03', 'C04', 'C05', 'C06', 'C07'):
        from . import decoder
        return decoder
    if pid == 'C16':
        from . import iojob
        return iojob
    if pid == 'C11':
        from . import defrag
        return defrag
    from . import jobs
    if pid in jobs.JOBS:
        return jobs
    return None
