"""table of the 'independent cases' checks (see simple.py)"""
import random
from .simple import Job, run_job

V6 = '{0, 60, 43, 44, 51, 17}'


def ext_extra(tier, seed):
    # seeded configurations over a larger link alphabet (values the model's V does not contain)
    r = random.Random(seed * 31 + 12)
    vals = [0, 60, 43, 44, 51, 17, 6, 58, 59, 255, 41]
    out = []
    for _ in range(2000 if tier == 'quick' else 40000):
        c = {k: (r.choice(vals) if r.random() < 0.55 else -1) for k in ('hbh', 'dst', 'route', 'frag', 'auth', 'fdst')}
        if c['route'] == -1:
            c['fdst'] = -1
        c['first'] = r.choice(vals)
        out.append(c)
    # every presence combination as a consistent chain in RFC 8200 order (so that the chain IS written and decoded again by every decoder)
    order = [('hbh', 0), ('dst', 60), ('route', 43), ('frag', 44), ('auth', 51), ('fdst', 60)]
    for mask in range(64):
        present = [(k, n) for i, (k, n) in enumerate(order) if mask >> i & 1]
        if any(k == 'fdst' for k, _ in present) and not any(k == 'route' for k, _ in present):
            continue
        for fin in (17, 6, 59):
            c = {k: -1 for k, _ in order}
            for j, (k, n) in enumerate(present):
                c[k] = present[j + 1][1] if j + 1 < len(present) else fin
            c['first'] = present[0][1] if present else fin
            out.append(c)
    return out


def ext_tag_props(tag):
    # a panic of a walker is also a totality violation (C02 names these unwrap() sites); C10 reaches write via the builder
    return ['C12']


JOBS = {
    'C12': Job('C12', mc='MC_ExtChain', tag='CONFIG', drive='ext-run', trace='Trace_ExtChain',
               invariants=['Total', 'NoSilentDrop', 'Closed', 'SetThenWalk', 'DecodeInverse', 'Emit'],
               consts_quick={'V': V6, 'MaxPresent': 3}, consts_thorough={'V': V6, 'MaxPresent': 6},
               extra=ext_extra, tag_props=ext_tag_props,
               describe='one case = one configuration of the six optional extension headers (each absent or linking to a value of V) x first header; '
                        'all walkers of the crate are run on it and compared with the walk machine of spec/ExtChain.tla',
               assumptions=['extension payload contents are irrelevant for the bookkeeping (fixed lengths 8/16/8/8/16/24 distinguish the slots)',
                            'link alphabet {0,60,43,44,51,17} exhaustively (quick: at most 3 headers present), other values seeded']),
}


def opts_extra(tier, seed):
    """seeded raw option areas of 0..44 bytes over the control alphabet and random data, and random element lists"""
    r = random.Random(seed * 17 + 13)
    alpha = [0, 1, 2, 3, 4, 5, 8, 9, 10, 18, 26, 34, 35, 255]
    out = []
    n = 3000 if tier == 'quick' else 100000
    for i in range(n):
        if i % 3 == 2:
            shapes = [[1, []], [2, [r.randrange(256), r.randrange(256)]], [3, [r.randrange(256)]], [4, []],
                      [8, [r.randrange(256) for _ in range(8)]]] + [[5, [r.randrange(256) for _ in range(8 * k)]] for k in (1, 2, 3, 4)]
            out.append({'kind': 'elems', 'bytes': [], 'elems': [r.choice(shapes) for _ in range(r.randrange(0, 9))]})
        else:
            ln = r.randrange(0, 45)
            b = []
            while len(b) < ln:
                x = r.random()
                if x < 0.5:
                    b.append(r.choice(alpha))
                elif x < 0.75:
                    b.append(r.randrange(256))
                else:      # a well formed option
                    b.extend(r.choice([[1], [2, 4, 5, 6], [3, 3, 9], [4, 2], [8, 10] + [7] * 8, [5, 10] + [3] * 8, [5, 18] + [3] * 16]))
            out.append({'kind': 'raw', 'bytes': b[:ln], 'elems': []})
    # lists far beyond the 40 byte limit: the required size that is reported must stay the true sum where narrow counters would wrap or
    # saturate (around 2^8 with every element kind, around 2^16 with the large ones)
    one = {1: [1, []], 2: [2, [5, 180]], 3: [3, [7]], 4: [4, []], 8: [8, [1, 2, 3, 4, 5, 6, 7, 8]], 5: [5, list(range(32))]}
    size = {1: 1, 2: 4, 3: 3, 4: 2, 8: 10, 5: 34}
    targets = [250, 254, 255, 256, 257, 260, 300, 511, 512, 513] + ([65530, 65535, 65536, 65540] if tier != 'quick' else [65536])
    for kind in (1, 2, 3, 4, 8, 5):
        for t in targets:
            if t > 1000 and kind not in (5, 8):
                continue
            k = t // size[kind]
            for extra in ((0, 1) if t <= 1000 else (0,)):
                lst = [one[kind]] * (k + extra)
                fill = t - size[kind] * k
                if fill and not extra:
                    lst = lst + [one[1]] * fill            # NOPs up to exactly the target size
                out.append({'kind': 'elems', 'bytes': [], 'elems': lst})
    return out


JOBS['C13'] = Job('C13', mc='MC_TcpOpts', tag='OPTS', drive='opts-run', trace='Trace_TcpOpts',
                  invariants=['RawProps', 'ElemProps', 'Emit'],
                  consts_quick={'MaxTokens': 2, 'MaxElems': 3}, consts_thorough={'MaxTokens': 3, 'MaxElems': 4},
                  extra=opts_extra,
                  describe='one case = one raw option area (every truncation of token sequences + short control strings) iterated per next() call, '
                           'or one element list encoded by try_from_elements / set_options and iterated; compared with spec/TcpOpts.tla',
                  assumptions=['SACK elements are canonical (blocks occupy the first slots of the [Option;3] array)',
                               'option payload bytes do not influence control flow; kind/length bytes are covered by the token alphabet'])


def cks_extra(tier, seed):
    r = random.Random(seed * 19 + 9)
    out = []
    big = tier != 'quick'

    def rb(n, mode=None):
        mode = mode or r.choice(['rnd', 'rnd', 'ff', 'zero', 'hi'])
        if mode == 'ff':
            return [255] * n
        if mode == 'zero':
            return [0] * n
        if mode == 'hi':
            return [r.choice([255, 254, 128, 0]) for _ in range(n)]
        return [r.randrange(256) for _ in range(n)]
    # accumulator: every length 0..70 (all residues of the 4 / 8 byte unrolled loops, odd and even), chunked randomly
    for ln in range(0, 71):
        for rep in range(3 if tier == 'quick' else 30):
            data = rb(ln)
            ops, pos = [], 0
            while pos < ln:
                left = ln - pos
                c = r.choice(['b2', 'b4', 'b8', 'b16', 'slice', 'slice'])
                n = {'b2': 2, 'b4': 4, 'b8': 8, 'b16': 16}.get(c)
                if n is None:
                    n = r.randrange(1, left + 1)
                    if n % 2 and pos + n != ln:
                        n += 1 if pos + n + 1 <= ln else -1
                    if n <= 0:
                        n = left
                if n > left:
                    c, n = 'slice', left
                ops.append([c, data[pos:pos + n]])
                pos += n
            if not ops:
                ops = [['slice', []]]
            out.append({'kind': 'steps', 'ops': ops})
    # fold boundaries: every combination of four 16 bit words from a set of carry-critical values, as one 8 byte add and as a slice
    # (lane sums of 0xffff, 0x10000, 0x1fffe, 0x1ffff, 0x20000 ... exercise every carry of the final 64 -> 16 bit fold)
    import itertools
    W = [0x0000, 0x0001, 0x0080, 0x8000, 0x7fff, 0x8001, 0xfffe, 0xffff, 0x0100, 0x00ff, 0xff00, 0x7f80]
    combos = list(itertools.product(W, repeat=4))
    if tier == 'quick':
        r.shuffle(combos)
        combos = combos[:6000] + [(0x0080, 0x0080, 0xffff, 0xffff), (0xffff, 0xffff, 0x0001, 0x0000), (0xffff, 0xffff, 0xffff, 0xffff)]
    for ws in combos:
        b = []
        for w in ws:
            b += [w >> 8, w & 255]
        out.append({'kind': 'steps', 'ops': [['b8', b]]})
        out.append({'kind': 'steps', 'ops': [['slice', b[:4]], ['b4', b[4:]]]})
    # carries of the wide accumulators themselves: slices made of carry-critical 32 bit words (u32 accumulator: the sum of the 4 byte words
    # and the fold of its carries overflow again) and 64 bit words (u64 accumulator), alone and behind a first add
    W32 = [0xffffffff, 0xfffffffe, 0x00000001, 0x01000000, 0x80000000, 0x7fffffff, 0xffff0000, 0x0000ffff, 0x00010000, 0xfeffffff]
    W64 = [0xffffffffffffffff, 0x0000000000000001, 0x0100000000000000, 0xfffffffffffffffe, 0x8000000000000000, 0x00000000ffffffff, 0xffffffff00000000]
    c32 = list(itertools.product(W32, repeat=3)) + [tuple(r.choice(W32) for _ in range(r.choice([4, 5, 6, 7, 9]))) for _ in range(400 if tier == 'quick' else 6000)]
    c64 = list(itertools.product(W64, repeat=3)) + [tuple(r.choice(W64) for _ in range(r.choice([2, 4, 5]))) for _ in range(200 if tier == 'quick' else 3000)]
    if tier == 'quick':
        r.shuffle(c32)
        c32 = c32[:700] + [(0xffffffff, 0xffffffff, 0x01000000), (0xffffffff, 0xffffffff, 0xffffffff)]
    for ws, nb in [(w, 4) for w in c32] + [(w, 8) for w in c64]:
        b = []
        for w in ws:
            b += list(w.to_bytes(nb, 'big'))
        out.append({'kind': 'steps', 'ops': [['slice', b]]})
        out.append({'kind': 'steps', 'ops': [['b4', [0xff, 0xff, 0xff, 0xff]], ['slice', b], ['b2', [0, 1]]]})
    # long slices in one piece (implementations switch strategy by length) - also summed at odd / 4 mod 8 addresses by the driver
    for ln in (63, 64, 65, 66, 71, 96, 127, 128, 129, 200, 513, 1024, 1500):
        for mode in ('rnd', 'ff', 'hi'):
            data = rb(ln, mode)
            out.append({'kind': 'steps', 'ops': [['slice', data]]})
            out.append({'kind': 'steps', 'ops': [['slice', data[:2]], ['slice', data[2:]]]})
    # wide register carries
    for n in [0, 1, 2, 3, 100, 8191, 8192, 8193]:
        for ln in [0, 1, 2, 3, 4, 5, 7, 8, 9, 15, 16, 17, 33]:
            out.append({'kind': 'sat', 'n': n, 'bytes': rb(ln)})
    # protocol checksums
    lens = list(range(0, 40)) + [63, 64, 65, 127, 128, 129, 255, 256, 257, 511, 1023, 1472, 1500] + ([4000, 9000, 65000] if big else [])
    addr4 = [[0, 0, 0, 0], [255, 255, 255, 255], [192, 168, 1, 1], [10, 0, 0, 200]]
    for ln in lens:
        for rep in range(2 if tier == 'quick' else 8):
            pl = rb(ln)
            s4, d4 = r.choice(addr4), r.choice(addr4)
            s6, d6 = rb(16), rb(16, 'ff' if rep == 0 else None)
            ports = rb(8)
            out.append({'kind': 'udp4', 'src': s4, 'dst': d4, 'hdr': ports, 'payload': pl})
            out.append({'kind': 'udp6', 'src': s6, 'dst': d6, 'hdr': ports, 'payload': pl})
            doff = r.choice([5, 5, 6, 10, 15])
            th = rb(20)
            th[12] = (doff << 4) | (th[12] & 1)
            th += [1] * (4 * (doff - 5))
            out.append({'kind': 'tcp4', 'src': s4, 'dst': d4, 'hdr': th, 'payload': pl})
            out.append({'kind': 'tcp6', 'src': s6, 'dst': d6, 'hdr': th, 'payload': pl})
            t4 = r.choice([0, 3, 4, 5, 8, 11, 12, 13, 14, 40, 200])
            c4 = r.choice([0, 0, 1, 2, 3, 5, 13, 15, 16])
            ih = [t4, c4] + rb(6)
            ipl = rb(12, 'rnd') if (t4 in (13, 14) and c4 == 0) else pl
            out.append({'kind': 'icmp4', 'src': [], 'dst': [], 'hdr': ih, 'payload': ipl})
            t6 = r.choice([1, 2, 3, 4, 128, 129, 130, 131, 132, 133, 134, 135, 136, 137, 143, 200])
            i6 = [t6, r.choice([0, 0, 1, 2, 3, 4, 7])] + rb(6)
            out.append({'kind': 'icmp6', 'src': s6, 'dst': d6, 'hdr': i6, 'payload': pl})
            g = [r.choice([0x11, 0x12, 0x16, 0x17, 0x22, 0x30, 0x99]), r.randrange(256)] + rb(6)
            gl = r.choice([0, 0, 4, 8, 12, 20]) if g[0] == 0x11 else r.choice([0, 0, 8, 16])
            out.append({'kind': 'igmp', 'src': [], 'dst': [], 'hdr': g, 'payload': rb(gl)})
    # beyond 2^16: IPv4 pseudo header / UDP length field cannot hold the length; IPv6 pseudo header carries the real 32 bit length
    for ln in ([65527, 65528, 70001] if tier == 'quick' else [65515, 65516, 65527, 65528, 65535, 65536, 70001, 131073]):
        pl = rb(ln, 'rnd')
        s6, d6, ports = rb(16), rb(16), rb(8)
        out.append({'kind': 'udp4', 'src': [10, 0, 0, 1], 'dst': [10, 0, 0, 2], 'hdr': ports, 'payload': pl})
        out.append({'kind': 'udp6', 'src': s6, 'dst': d6, 'hdr': ports, 'payload': pl, **({'udplen': 0} if ln > 65527 else {})})
        th = rb(20)
        th[12] = (5 << 4) | (th[12] & 1)
        out.append({'kind': 'tcp4', 'src': [10, 0, 0, 1], 'dst': [10, 0, 0, 2], 'hdr': th, 'payload': pl})
        out.append({'kind': 'tcp6', 'src': s6, 'dst': d6, 'hdr': th, 'payload': pl})
        out.append({'kind': 'icmp6', 'src': s6, 'dst': d6, 'hdr': [128, 0] + rb(6), 'payload': pl})
    # every assigned (type, code) pair of ICMPv4 / ICMPv6 (each has its own arm in the checksum code) and unassigned neighbours
    pairs4 = [(3, c) for c in range(0, 17)] + [(5, c) for c in range(0, 5)] + [(11, c) for c in range(0, 3)] + [(12, c) for c in range(0, 4)] + \
             [(0, 0), (0, 1), (8, 0), (8, 1), (13, 0), (14, 0), (13, 1), (4, 0), (15, 0), (42, 0), (255, 255)]
    pairs6 = [(1, c) for c in range(0, 8)] + [(2, 0), (2, 1)] + [(3, c) for c in range(0, 3)] + [(4, c) for c in range(0, 12)] + \
             [(128, 0), (129, 0), (128, 1), (133, 0), (134, 0), (135, 0), (136, 0), (137, 0), (133, 1), (130, 0), (143, 0), (255, 0)]
    for (t, c) in pairs4:
        for ln in ((0, 9) if tier == 'quick' else (0, 1, 2, 9, 64)):
            ipl = rb(12, 'rnd') if (t in (13, 14) and c == 0) else rb(ln)
            out.append({'kind': 'icmp4', 'src': [], 'dst': [], 'hdr': [t, c] + rb(6, 'rnd' if ln else 'ff'), 'payload': ipl})
    # a timestamp header (20 bytes) with data behind it: not a sliceable message, but the header level API takes a payload
    for t in (13, 14):
        for ln in ((1, 8, 33) if tier == 'quick' else (1, 2, 3, 8, 9, 33, 64, 1000)):
            out.append({'kind': 'icmp4', 'src': [], 'dst': [], 'hdr': [t, 0] + rb(6, 'rnd'), 'payload': rb(12 + ln, 'rnd')})
    for (t, c) in pairs6:
        for ln in ((0, 41) if tier == 'quick' else (0, 1, 16, 41, 64)):
            out.append({'kind': 'icmp6', 'src': rb(16), 'dst': rb(16), 'hdr': [t, c] + rb(6, 'rnd' if ln else 'ff'), 'payload': rb(ln)})
    for ihl in range(5, 16):
        for rep in range(6 if tier == 'quick' else 40):
            h = rb(4 * ihl)
            h[0] = 0x40 | ihl
            tl = 4 * ihl + r.randrange(0, 100)
            h[2], h[3] = tl >> 8, tl & 255
            out.append({'kind': 'ipv4hdr', 'src': [], 'dst': [], 'hdr': h, 'payload': []})
    # received ICMPv6 messages (is_checksum_valid): correct checksum, single bit corruptions, and the case where the sum over the
    # zeroed message is 0xffff so that BOTH zero representations (0x0000 and 0xffff) in the checksum field make the complete sum fold to 0xffff
    def fold(bs):
        s = 0
        for i in range(0, len(bs), 2):
            s += (bs[i] << 8) | (bs[i + 1] if i + 1 < len(bs) else 0)
        while s >> 16:
            s = (s & 0xffff) + (s >> 16)
        return s
    for rep in range(12 if tier == 'quick' else 200):
        s6, d6 = rb(16, 'rnd'), rb(16, 'rnd')
        pl = rb(r.choice([2, 4, 11, 12, 40]), 'rnd')
        msg = [128, 0, 0, 0] + rb(4, 'rnd') + pl
        n = len(msg)
        pseudo = s6 + d6 + [0, 0, n >> 8, n & 255, 0, 0, 0, 58]
        cur = fold(pseudo + msg)
        # adjust the id field (bytes 4..5) so that the sum of the zero-checksum message is exactly 0xffff
        idw = (msg[4] << 8) | msg[5]
        rest = fold(pseudo + msg[:4] + [0, 0] + msg[6:])
        need = (0xffff - rest) % 0xffff
        msg[4], msg[5] = need >> 8, need & 255
        assert fold(pseudo + msg) == 0xffff
        for field in ([0, 0], [255, 255], [0, 1]):
            m2 = list(msg)
            m2[2], m2[3] = field
            out.append({'kind': 'icmp6', 'src': s6, 'dst': d6, 'hdr': m2[:8], 'payload': m2[8:]})
        # an ordinary message with its correct checksum and all single bit flips of the first 10 bytes
        msg2 = [129, 0, 0, 0] + rb(4, 'rnd') + pl
        c = 0xffff - fold(pseudo + msg2)
        msg2[2], msg2[3] = c >> 8, c & 255
        out.append({'kind': 'icmp6', 'src': s6, 'dst': d6, 'hdr': msg2[:8], 'payload': msg2[8:]})
        for bit in range(0, 80, 7):
            m3 = list(msg2)
            if bit // 8 < len(m3):
                m3[bit // 8] ^= 1 << (bit % 8)
                out.append({'kind': 'icmp6', 'src': s6, 'dst': d6, 'hdr': m3[:8], 'payload': m3[8:]})
    return out


JOBS['C09'] = Job('C09', mc='MC_Checksum', tag='CKS', drive='cks-run', trace='Trace_Checksum',
                  invariants=['SplitIndependence', 'KnownAnswers', 'Emit'],
                  consts_quick={'Alphabet': '{1, 255}', 'MaxLen': 8}, consts_thorough={'Alphabet': '{0, 1, 255}', 'MaxLen': 9},
                  extra=cks_extra,
                  design_mc=[('ChecksumWide',
                              {'quick': [{'B': 2, 'W': 8, 'MaxLen': 13, 'R0Kind': '"edges"', 'Alphabet': '{0, 3}'},
                                         {'B': 2, 'W': 4, 'MaxLen': 7, 'R0Kind': '"edges"', 'Alphabet': '{0, 1, 2, 3}'}],
                               'thorough': [{'B': 2, 'W': 8, 'MaxLen': 17, 'R0Kind': '"edges"', 'Alphabet': '{0, 3}'},
                                            {'B': 2, 'W': 8, 'MaxLen': 9, 'R0Kind': '"edges"', 'Alphabet': '{0, 1, 2, 3}'},
                                            {'B': 2, 'W': 4, 'MaxLen': 5, 'R0Kind': '"all"', 'Alphabet': '{0, 1, 2, 3}'},
                                            {'B': 2, 'W': 4, 'MaxLen': 9, 'R0Kind': '"edges"', 'Alphabet': '{0, 1, 2, 3}'},
                                            {'B': 3, 'W': 8, 'MaxLen': 11, 'R0Kind': '"edges"', 'Alphabet': '{0, 1, 7}'},
                                            {'B': 3, 'W': 4, 'MaxLen': 6, 'R0Kind': '"edges"', 'Alphabet': '{0, 1, 2, 3, 4, 5, 6, 7}'}]},
                              ['Refines', 'NoTruncation', 'ZeroOnlyForZero', 'Consumes', 'ResultIsRfc1071'])],
                  describe='one case = one chunking of a byte string into add_2/4/8/16bytes / add_slice calls (the folded sum of all three register widths is '
                           'validated after every call), a saturated wide register, or one header+payload+address set run through every checksum function of a protocol',
                  assumptions=['TLC explores the 16 bit machine and, as a refinement of it (ChecksumWide), the wide-register algorithm of checksum.rs at scaled-down widths (2/3 bit bytes, 4 and 8 byte registers, all start registers of interest); the real 32/64 bit registers are bound per step on directed (saturating) and seeded inputs, not exhausted',
                               'little endian host (the pre-loaded register test assumes it)',
                               'UDP over IPv6 jumbograms (payload > 65527) are not generated'])


def control_byte_cases(tier, r):
    """byte strings with every value of the control bytes of each header kind (incl. reserved bits), over a body that is long enough for
    whatever length the control bytes announce; used by the C08 'any' cases and by the io pipeline (C06 / C16)"""
    out = []

    def by(n):
        return [r.randrange(256) for _ in range(n)]

    def anyc(ty, b):
        out.append({'kind': 'any', 'type': ty, 'f': [], 'bytes': b})
    for tci in (0x00, 0x20, 0x04, 0x08, 0x0c, 0x2c, 0x10, 0x40, 0x80, 0x23):
        for b1 in range(256):
            anyc('macsec', [tci, b1] + by(16))
    for b0 in list(range(0x40, 0x50)) + [0x35, 0x55, 0x65, 0x05]:
        for b6 in (0x00, 0x80, 0x40, 0x20, 0xff, 0x1f):
            anyc('ipv4', [b0, r.randrange(256)] + by(4) + [b6] + by(53))
    for b12 in range(256):
        anyc('tcp', by(12) + [b12] + by(47))
    step = 1 if tier != 'quick' else 5
    for b1 in sorted(set(list(range(0, 256, step)) + [0, 1, 2, 254, 255])):
        anyc('auth', [r.randrange(256), b1, r.choice([0, 0xff]), r.choice([0, 1])] + by((b1 + 2) * 4 - 4 if b1 else 12))
        anyc('rawext', [r.randrange(256), b1] + by((b1 + 1) * 8 - 2))
    for b1 in (0, 1, 0xff):
        for b3 in range(0, 256, 1 if tier != 'quick' else 3):
            anyc('frag', [r.randrange(256), b1, r.randrange(256), b3] + by(4))
    for pt in range(0, 10):
        for hw in (1, 770, 778, 803, 824, 0, 2, 65535):
            for proto in (0, 1, 9, 10, 12, 14, 15, 16, 17, 18, 21, 28, 29, 245, 250, 251, 0x0800, 0xffff):
                anyc('sll', [pt >> 8, pt & 255, hw >> 8, hw & 255, 0, r.randrange(9)] + by(8) + [proto >> 8, proto & 255])
    for hl in (0, 1, 6, 8, 255):
        for pl in (0, 4, 16, 255):
            anyc('arp', by(4) + [hl, pl] + by(2) + by(2 * hl + 2 * pl))
    for ty, n in (('eth', 14), ('vlan', 4), ('udp', 8), ('ipv6', 40), ('icmp6', 8), ('icmp4', 8), ('icmp4', 20)):
        for _ in range(20):
            b = by(n)
            if ty == 'ipv6':
                b[0] = r.choice([0x60, 0x6f, 0x40, 0x70])
            if ty == 'icmp4':
                b[0], b[1] = r.choice([0, 3, 5, 8, 11, 12, 13, 14, 42]), r.choice([0, 0, 1, 4])
            anyc(ty, b)
    return out


def wire_extra(tier, seed):
    """seeded random well formed values of every header kind (fields uniformly random, variable parts of random admissible length)"""
    r = random.Random(seed * 23 + 8)
    out = []

    def by(n):
        return [r.randrange(256) for _ in range(n)]
    n = 150 if tier == 'quick' else 5000
    for _ in range(n):
        out.append({'kind': 'value', 'type': 'eth', 'f': by(12) + [r.randrange(65536)], 'bytes': []})
        out.append({'kind': 'value', 'type': 'vlan', 'f': [r.randrange(8), r.randrange(2), r.randrange(4096), r.randrange(65536)], 'bytes': []})
        pt = r.randrange(4)
        sl = r.randrange(64)
        if pt == 0 and sl == 1:
            sl = 2
        sc = r.randrange(2)
        out.append({'kind': 'value', 'type': 'macsec', 'f': [pt, r.randrange(65536) if pt == 0 else -1, r.randrange(2), r.randrange(2), r.randrange(4), sl] + by(4) + ([1] + by(8) if sc else [0]), 'bytes': []})
        h, p = r.choice([0, 1, 6, 8, 255]), r.choice([0, 4, 16, 255])
        out.append({'kind': 'value', 'type': 'arp', 'f': [r.randrange(65536), r.randrange(65536), h, p, r.randrange(65536)] + by(2 * h + 2 * p), 'bytes': []})
        on = 4 * r.randrange(0, 11)
        out.append({'kind': 'value', 'type': 'ipv4', 'f': [r.randrange(64), r.randrange(4), r.randrange(65536), r.randrange(65536), r.randrange(2), r.randrange(2), r.randrange(8192),
                                                           r.randrange(256), r.randrange(256), r.randrange(65536)] + by(8) + by(on), 'bytes': []})
        out.append({'kind': 'value', 'type': 'auth', 'f': [r.randrange(256)] + by(8) + by(4 * r.choice([0, 1, 2, 3, 10, 254])), 'bytes': []})
        out.append({'kind': 'value', 'type': 'ipv6', 'f': [r.randrange(256), r.randrange(16), r.randrange(256), r.randrange(256), r.randrange(65536), r.randrange(256), r.randrange(256)] + by(32), 'bytes': []})
        out.append({'kind': 'value', 'type': 'udp', 'f': [r.randrange(65536) for _ in range(4)], 'bytes': []})
        tn = 4 * r.randrange(0, 11)
        out.append({'kind': 'value', 'type': 'tcp', 'f': [r.randrange(65536), r.randrange(65536)] + by(8) + [5 + tn // 4, r.randrange(512), r.randrange(65536), r.randrange(65536), r.randrange(65536)] + by(tn), 'bytes': []})
        out.append({'kind': 'value', 'type': 'frag', 'f': [r.randrange(256), r.randrange(8192), r.randrange(2)] + by(4), 'bytes': []})
        out.append({'kind': 'value', 'type': 'rawext', 'f': [r.randrange(256)] + by(6 + 8 * r.choice([0, 1, 2, 7, 255])), 'bytes': []})
    out.extend(control_byte_cases(tier, r))
    return out


WIRE_ASSUME = ['14 header kinds have a byte-exact encoder in spec/Wire.tla (Ethernet II, Linux SLL, VLAN, MACsec, ARP, IPv4+options, AH, IPv6, UDP, TCP+options, '
               'fragment, raw extension, ICMPv6 raw form); typed ICMPv4/ICMPv6/IGMP/NDP values are covered by the C17 check',
               'write_to_slice exists only on Ethernet2Header and LinuxSllHeader; Ipv4Header::write recomputes the checksum (compared separately), write_raw is compared byte for byte']
JOBS['C08'] = Job('C08', mc='MC_Wire', tag='WIRE', drive='wire-run', trace='Trace_Wire',
                  invariants=['RoundTrip', 'LenAnnounced', 'Normalises', 'Emit'],
                  consts_quick={'Full': 'FALSE'}, consts_thorough={'Full': 'TRUE'}, extra=wire_extra,
                  describe='one case = one header value (star design over all fields, both all-zero and all-ones neighbours, all length classes of variable parts) '
                           'serialised by every serialiser and decoded from slice and io::Read, or one accepted byte string with reserved bits set decoded and re-encoded',
                  assumptions=WIRE_ASSUME)
JOBS['C15'] = Job('C15', mc='MC_Wire', tag='WIRE', drive='wire-run', trace='Trace_Wire',
                  invariants=['RoundTrip', 'LenAnnounced', 'Normalises', 'Emit'],
                  consts_quick={'Full': 'FALSE'}, consts_thorough={'Full': 'TRUE'}, extra=wire_extra,
                  describe='one case = one value of one bit field against all-zero and all-ones neighbours: the bytes must equal the specification encoder exactly, '
                           'so a field can change only the bits it owns; or one byte string with every value of the control bytes (incl. reserved bits) through both decoders: '
                           'only in-range values come out, the re-encoding has exactly the reserved bits cleared',
                  assumptions=WIRE_ASSUME)


NT = ('VlanId', 'VlanPcp', 'IpDscp', 'IpEcn', 'IpFragOffset', 'Ipv6FlowLabel', 'MacsecAn', 'MacsecShortLen', 'Qrv')


BITFIELD_APIS = ('ipv6.set_dscp', 'ipv6.set_ecn', 'igmp.set_qrv', 'igmp.set_s_flag', 'igmp.set_flags')
BOTH_APIS = ('macsec.short_len.from_len',)      # a length-taking constructor of a bounded newtype: C14 and C15      # bit-field isolation: C15


def fields_tag_props_c14(tag):
    return [] if tag.split(':')[-1] in NT or tag.split(':')[-1] in BITFIELD_APIS else ['C14']


def fields_tag_props_c15(tag):
    return ['C15'] if tag.split(':')[-1] in NT or tag.split(':')[-1] in BITFIELD_APIS or tag.split(':')[-1] in BOTH_APIS or ':' not in tag else []


JOBS['C14'] = Job('C14', mc='MC_Fields', tag='FIELD', drive='fields-run', trace='Trace_Fields',
                  invariants=['AcceptIffFits', 'Monotone', 'Emit'], consts_quick={'Full': 'FALSE'}, consts_thorough={'Full': 'FALSE'},
                  tag_props=fields_tag_props_c14,
                  describe='one case = one length-taking API x header context x value (0, 1, limit-2..limit+2, 2^16-2..2^16+2, far beyond); accept/reject, error fields, '
                           'unchanged-on-error and the value decoded from the encoded field are compared with Fields!Expect',
                  assumptions=['32 bit pseudo-header limits (UDP/TCP/ICMPv6 over IPv6: 2^32-1-header) are only probed below the limit: no 4 GiB payloads are allocated',
                               'builder payload limits are checked by the C10 check'])


def ctl_extra(tier, seed):
    """seeded random control messages of 0..300 bytes with type / code / length-unit bytes drawn from assigned and unassigned values"""
    r = random.Random(seed * 37 + 17)
    out = []
    n = 1500 if tier == 'quick' else 40000
    t4 = [0, 3, 4, 5, 8, 9, 10, 11, 12, 13, 14, 15, 16, 17, 18, 40, 253]
    t6 = [1, 2, 3, 4, 100, 127, 128, 129, 130, 133, 134, 135, 136, 137, 138, 200, 255]
    for i in range(n):
        ln = r.choice([0, 1, 7, 8, 9, 12, 16, 20, 24, 40, 48, 72, 300, r.randrange(0, 301)])
        b = [r.randrange(256) for _ in range(ln)]
        k = i % 6
        if k == 0:
            if ln > 1:
                b[0], b[1] = r.choice(t4), r.choice([0, 0, 0, 1, 2, 3, 4, 15, 16, 200])
            out.append({'kind': 'icmp4', 'bytes': b})
        elif k in (1, 2):
            if ln > 1:
                b[0], b[1] = r.choice(t6), r.choice([0, 0, 0, 0, 1, 6, 7, 10, 11])
            # plant option headers behind the fixed part
            for off in (8, 16, 24, 40):
                if ln > off + 1 and r.random() < 0.6:
                    b[off], b[off + 1] = r.choice([1, 2, 3, 4, 5, 6, 0, 255]), r.choice([0, 1, 1, 2, 4, 5, 31, 32, 255])
            out.append({'kind': 'icmp6', 'bytes': b})
        elif k == 3:
            pos = 0
            while pos + 1 < ln:
                b[pos], b[pos + 1] = r.choice([1, 2, 3, 4, 5, 6, 0, 255]), r.choice([0, 1, 1, 1, 2, 4, 5, 32])
                pos += max(8, b[pos + 1] * 8)
            out.append({'kind': 'ndp', 'bytes': b})
        elif k == 4:
            if ln > 0:
                b[0] = r.choice([0x11, 0x12, 0x16, 0x17, 0x22, 0x13, 0xff])
            out.append({'kind': 'igmp', 'bytes': b[:r.choice([ln, 8, 12, 9, 11])]})
        else:
            hl, pl = r.choice([6, 6, 6, 8, 0]), r.choice([4, 4, 16, 0])
            a = [0, r.choice([1, 1, 6]), r.choice([8, 8, 0x86]), r.choice([0, 0, 0xdd]), hl, pl, 0, r.randrange(1, 5)] + [r.randrange(256) for _ in range(2 * hl + 2 * pl + r.choice([0, 0, 3]))]
            out.append({'kind': 'arp', 'bytes': a})
    out.append({'kind': 'codes', 'bytes': []})        # code tables of the typed messages (from_u8 / from_values / code_u8)
    return out


JOBS['C17'] = Job('C17', mc='MC_Ctl', tag='CTL', drive='ctl-run', trace='Trace_Ctl',
                  invariants=['UnknownFallback', 'OptionTiling', 'Emit'],
                  consts_quick={'AllCodes': 'FALSE', 'MaxOpts': 2}, consts_thorough={'AllCodes': 'TRUE', 'MaxOpts': 3}, extra=ctl_extra,
                  describe='one case = one control message byte string: (type, code) x payload length class for ICMPv4/ICMPv6 (thorough: all 65 536 pairs each), every truncation of '
                           'neighbour discovery option token sequences (iterated per next() call), IGMP types x lengths, group records, ARP field grid; compared with the RFC tables of spec/Ctl.tla',
                  assumptions=['message types the crate leaves as Unknown are only required to BE Unknown with their raw bytes preserved',
                               'typed ICMP header values are compared through their normalised 8/20 header bytes (to_bytes) and variant name'])


def build_tag_props(tag):
    return ['C10']


JOBS['C10'] = Job('C10', mc='MC_Builder', tag='BUILD', drive='build-run', trace='Trace_Builder',
                  invariants=['TypeState', 'SizeFits', 'Emit'], consts_quick={'Wide': 'FALSE'}, consts_thorough={'Wide': 'TRUE'},
                  tag_props=build_tag_props,
                  describe='one case = one complete path through the builder typestate machine (link x VLAN x net incl. IpHeaders with options/auth/extension sets x '
                           'transport incl. every TCP flag setter and option form x payload lengths incl. the exact limits of the path +-1), written through write, '
                           'write_to_vec and write_to_slice; the bytes are decoded by the reference decoder and every checksum is verified by the RFC 1071 machine',
                  assumptions=['64 kB packets: sizes, verdicts and length fields are checked, byte-exact re-decoding and checksum verification only below 2 kB',
                               'header field values are fixed constants of the harness (addresses, ports, ids)',
                               'raw IPv6 payloads announced as protocol 0 are only checked for size (a decoder reads them as hop-by-hop header)'])


def c08_ctl_tags(tag):
    """typed control-message headers are serialisable header types too (C08): announced length, decode -> re-encode, encode -> decode"""
    t = tag.split(':')[0]
    return ['C08'] if t in ('igmp.header_len', 'igmp.fields', 'igmp.encode_decode', 'icmp4.fields', 'icmp6.fields', 'icmp4.header_len', 'icmp4.header_struct_differs',
                            'icmp6.header_struct_differs', 'ndp.prefix_information_struct', 'ndp.option_header', 'icmp.echo_header', 'grouprec.reencode', 'grouprec.fields',
                            'arp.view_back_conversion', 'arp.view_fields', 'icmp6.to_payload', 'icmp6.type_code_accessors', 'icmp6.type_based_entry_points_differ') or t.startswith('panic') else []


def c08_ctl_job():
    j = JOBS['C17']
    return Job('C08', mc=j.mc, tag=j.tag, drive=j.drive, trace=j.trace, invariants=j.invariants, consts_quick=j.consts_quick, consts_thorough=j.consts_thorough,
               extra=j.extra, tag_props=c08_ctl_tags,
               describe='one case = one control message byte string (ICMPv4 / ICMPv6 / NDP / IGMP / ARP view): announced header length, decode -> re-encode (normal form), encode -> decode',
               assumptions=['typed control-message headers: the part of the Ctl pipeline that concerns serialisation (the dispatch tables themselves are C17)'])


def c12_builder_tags(tag):
    # the builder links the extension headers of the header set it was given (three copies: write, write_to_vec, write_to_slice)
    t = tag.split(':')[0]
    return ['C12'] if t in ('chain.linked_by_builder_not_serialisable', 'ipv4.protocol', 'ipv4.auth.next_header', 'ipv6.next_header', 'ipv6.exts.order',
                            'ipv6.exts.last_next_header') else []


def c12_builder_job():
    j = JOBS['C10']
    return Job('C12', mc=j.mc, tag=j.tag, drive=j.drive, trace=j.trace, invariants=j.invariants, consts_quick=j.consts_quick, consts_thorough=j.consts_quick,
               extra=j.extra, tag_props=c12_builder_tags,
               describe='one case = one builder path with extension headers: the builder links the chain itself in each of its three sinks; the linked set serialises and the '
                        'links in the bytes follow the RFC 8200 order up to the transport protocol',
               assumptions=['builder paths: only the linking of the extension headers is judged here (everything else about the builder is C10)'])


def run(pid, tier, seed, replay=None):
    if pid == 'C12':
        return run_composite(pid, tier, seed, replay, JOBS['C12'], c12_builder_job(), ('extension_chain_walkers', 'chains_linked_by_the_builder'))
    if pid == 'C08':
        return run_composite(pid, tier, seed, replay, JOBS['C08'], c08_ctl_job(), ('header_codecs', 'typed_control_message_headers'))
    if pid == 'C15':
        return run_composite(pid, tier, seed, replay, C15_FIELDS, JOBS['C15'], ('newtype_domains', 'field_isolation'))
    if pid == 'C14':
        return run_composite(pid, tier, seed, replay, JOBS['C14'], C14_BUILDER, ('setters_and_constructors', 'builder_payload_limits'))
    return run_job(JOBS[pid], pid, tier, seed, replay)


def run_composite(pid, tier, seed, replay, job1, job2, names):
    """a check made of two case pipelines (e.g. C15 = newtype domains (Fields) + field isolation through the byte-exact encoders (Wire))"""
    import json as _json
    from . import core
    if replay:
        rp = _json.load(open(replay))
        job = job1 if rp.get('kind') == job1.drive else job2
        return run_job(job, pid, tier, seed, replay)
    code1 = run_job(job1, pid, tier, seed, None)
    ev1 = _json.load(open(core.EVID + '/%s.json' % pid))
    code2 = run_job(job2, pid, tier, seed, None)
    ev2 = _json.load(open(core.EVID + '/%s.json' % pid))
    # merge the two evidence records
    c1, c2 = ev1['coverage'], ev2['coverage']
    for k in ('states', 'transitions', 'traces_validated_against_impl', 'evaluations', 'distinct_nontrivial'):
        c2[k] = c1[k] + c2[k]
    c2['samples'] = c1['samples'][:2] + c2['samples'][:2]
    c2['details'] = {names[0]: c1['details'], names[1]: c2['details']}
    c2['rule'] = c1['rule'] + ' | ' + c2['rule']
    ev2['wall_s'] = ev1['wall_s'] + ev2['wall_s']
    ev2['violations'] = ev1['violations'] + ev2['violations']
    _json.dump(ev2, open(core.EVID + '/%s.json' % pid, 'w'), indent=1, sort_keys=True)
    return 1 if 1 in (code1, code2) else max(code1, code2)


def c14_builder_tags(tag):
    # the builder as a length-taking API: verdict at the exact payload limits, no truncated length field
    t = tag.split(':')[0]
    return ['C14'] if t in ('verdict', 'ipv4.total_len', 'ipv6.payload_length', 'udp.length', 'error.payload_len_fields', 'size.announced', 'size.written', 'reparse.rejected') else []


C14_BUILDER = Job('C14', mc='MC_Builder', tag='BUILD', drive='build-run', trace='Trace_Builder',
                  invariants=['TypeState', 'SizeFits', 'Emit'], consts_quick={'Wide': 'FALSE'}, consts_thorough={'Wide': 'FALSE'},
                  tag_props=c14_builder_tags,
                  describe='one case = one builder path x payload length at the exact limit of the path (MaxPayload-1, MaxPayload, MaxPayload+1) and small lengths',
                  assumptions=['builder payloads: verdicts, announced/written sizes and the encoded length fields'])
C15_FIELDS = Job('C15', mc='MC_Fields', tag='FIELD', drive='fields-run', trace='Trace_Fields',
                 invariants=['AcceptIffFits', 'Monotone', 'Emit'], consts_quick={'Full': 'FALSE'}, consts_thorough={'Full': 'TRUE'},
                 tag_props=fields_tag_props_c15,
                 describe='one case = one value of the complete domain (plus out-of-range neighbours) of a bounded newtype through try_new/try_from',
                 assumptions=['Ipv6FlowLabel (2^20 values): boundaries + stride in the quick tier, complete in the thorough tier'])
