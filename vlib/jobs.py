"""table of the 'independent cases' checks (see simple.py)"""
import random
from .simple import Job, run_job

V6 = '{0, 60, 43, 44, 51, 17}'


def ext_extra(tier, seed):
    # seeded configurations over a larger link alphabet (values the model's V does not contain)
    r = random.Random(seed * 31 + 12)
    vals = [0, 60, 43, 44, 51, 17, 6, 58, 59, 255, 41]
    out = []
    for _ in range(2000 if tier == 'quick' else 40000):
        c = {k: (r.choice(vals) if r.random() < 0.55 else -1) for k in ('hbh', 'dst', 'route', 'frag', 'auth', 'fdst')}
        if c['route'] == -1:
            c['fdst'] = -1
        c['first'] = r.choice(vals)
        out.append(c)
    return out


def ext_tag_props(tag):
    # a panic of a walker is also a totality violation (C02 names these unwrap() sites); C10 reaches write via the builder
    return ['C12']


JOBS = {
    'C12': Job('C12', mc='MC_ExtChain', tag='CONFIG', drive='ext-run', trace='Trace_ExtChain',
               invariants=['Total', 'NoSilentDrop', 'Closed', 'SetThenWalk', 'DecodeInverse', 'Emit'],
               consts_quick={'V': V6, 'MaxPresent': 3}, consts_thorough={'V': V6, 'MaxPresent': 6},
               extra=ext_extra, tag_props=ext_tag_props,
               describe='one case = one configuration of the six optional extension headers (each absent or linking to a value of V) x first header; '
                        'all walkers of the crate are run on it and compared with the walk machine of spec/ExtChain.tla',
               assumptions=['extension payload contents are irrelevant for the bookkeeping (fixed lengths 8/16/8/8/16/24 distinguish the slots)',
                            'link alphabet {0,60,43,44,51,17} exhaustively (quick: at most 3 headers present), other values seeded']),
}


def opts_extra(tier, seed):
    """seeded raw option areas of 0..44 bytes over the control alphabet and random data, and random element lists"""
    r = random.Random(seed * 17 + 13)
    alpha = [0, 1, 2, 3, 4, 5, 8, 9, 10, 18, 26, 34, 35, 255]
    out = []
    n = 3000 if tier == 'quick' else 100000
    for i in range(n):
        if i % 3 == 2:
            shapes = [[1, []], [2, [r.randrange(256), r.randrange(256)]], [3, [r.randrange(256)]], [4, []],
                      [8, [r.randrange(256) for _ in range(8)]]] + [[5, [r.randrange(256) for _ in range(8 * k)]] for k in (1, 2, 3, 4)]
            out.append({'kind': 'elems', 'bytes': [], 'elems': [r.choice(shapes) for _ in range(r.randrange(0, 9))]})
        else:
            ln = r.randrange(0, 45)
            b = []
            while len(b) < ln:
                x = r.random()
                if x < 0.5:
                    b.append(r.choice(alpha))
                elif x < 0.75:
                    b.append(r.randrange(256))
                else:      # a well formed option
                    b.extend(r.choice([[1], [2, 4, 5, 6], [3, 3, 9], [4, 2], [8, 10] + [7] * 8, [5, 10] + [3] * 8, [5, 18] + [3] * 16]))
            out.append({'kind': 'raw', 'bytes': b[:ln], 'elems': []})
    return out


JOBS['C13'] = Job('C13', mc='MC_TcpOpts', tag='OPTS', drive='opts-run', trace='Trace_TcpOpts',
                  invariants=['RawProps', 'ElemProps', 'Emit'],
                  consts_quick={'MaxTokens': 2, 'MaxElems': 3}, consts_thorough={'MaxTokens': 3, 'MaxElems': 4},
                  extra=opts_extra,
                  describe='one case = one raw option area (every truncation of token sequences + short control strings) iterated per next() call, '
                           'or one element list encoded by try_from_elements / set_options and iterated; compared with spec/TcpOpts.tla',
                  assumptions=['SACK elements are canonical (blocks occupy the first slots of the [Option;3] array)',
                               'option payload bytes do not influence control flow; kind/length bytes are covered by the token alphabet'])


def cks_extra(tier, seed):
    r = random.Random(seed * 19 + 9)
    out = []
    big = tier != 'quick'

    def rb(n, mode=None):
        mode = mode or r.choice(['rnd', 'rnd', 'ff', 'zero', 'hi'])
        if mode == 'ff':
            return [255] * n
        if mode == 'zero':
            return [0] * n
        if mode == 'hi':
            return [r.choice([255, 254, 128, 0]) for _ in range(n)]
        return [r.randrange(256) for _ in range(n)]
    # accumulator: every length 0..70 (all residues of the 4 / 8 byte unrolled loops, odd and even), chunked randomly
    for ln in range(0, 71):
        for rep in range(3 if tier == 'quick' else 30):
            data = rb(ln)
            ops, pos = [], 0
            while pos < ln:
                left = ln - pos
                c = r.choice(['b2', 'b4', 'b8', 'b16', 'slice', 'slice'])
                n = {'b2': 2, 'b4': 4, 'b8': 8, 'b16': 16}.get(c)
                if n is None:
                    n = r.randrange(1, left + 1)
                    if n % 2 and pos + n != ln:
                        n += 1 if pos + n + 1 <= ln else -1
                    if n <= 0:
                        n = left
                if n > left:
                    c, n = 'slice', left
                ops.append([c, data[pos:pos + n]])
                pos += n
            if not ops:
                ops = [['slice', []]]
            out.append({'kind': 'steps', 'ops': ops})
    # wide register carries
    for n in [0, 1, 2, 3, 100, 8191, 8192, 8193]:
        for ln in [0, 1, 2, 3, 4, 5, 7, 8, 9, 15, 16, 17, 33]:
            out.append({'kind': 'sat', 'n': n, 'bytes': rb(ln)})
    # protocol checksums
    lens = list(range(0, 40)) + [63, 64, 65, 127, 128, 129, 255, 256, 257, 511, 1023, 1472, 1500] + ([4000, 9000, 65000] if big else [])
    addr4 = [[0, 0, 0, 0], [255, 255, 255, 255], [192, 168, 1, 1], [10, 0, 0, 200]]
    for ln in lens:
        for rep in range(2 if tier == 'quick' else 8):
            pl = rb(ln)
            s4, d4 = r.choice(addr4), r.choice(addr4)
            s6, d6 = rb(16), rb(16, 'ff' if rep == 0 else None)
            ports = rb(8)
            out.append({'kind': 'udp4', 'src': s4, 'dst': d4, 'hdr': ports, 'payload': pl})
            out.append({'kind': 'udp6', 'src': s6, 'dst': d6, 'hdr': ports, 'payload': pl})
            doff = r.choice([5, 5, 6, 10, 15])
            th = rb(20)
            th[12] = (doff << 4) | (th[12] & 1)
            th += [1] * (4 * (doff - 5))
            out.append({'kind': 'tcp4', 'src': s4, 'dst': d4, 'hdr': th, 'payload': pl})
            out.append({'kind': 'tcp6', 'src': s6, 'dst': d6, 'hdr': th, 'payload': pl})
            t4 = r.choice([0, 3, 4, 5, 8, 11, 12, 13, 14, 40, 200])
            c4 = r.choice([0, 0, 1, 2, 3, 5, 13, 15, 16])
            ih = [t4, c4] + rb(6)
            ipl = rb(12, 'rnd') if (t4 in (13, 14) and c4 == 0) else pl
            out.append({'kind': 'icmp4', 'src': [], 'dst': [], 'hdr': ih, 'payload': ipl})
            t6 = r.choice([1, 2, 3, 4, 128, 129, 130, 131, 132, 133, 134, 135, 136, 137, 143, 200])
            i6 = [t6, r.choice([0, 0, 1, 2, 3, 4, 7])] + rb(6)
            out.append({'kind': 'icmp6', 'src': s6, 'dst': d6, 'hdr': i6, 'payload': pl})
            g = [r.choice([0x11, 0x12, 0x16, 0x17, 0x22, 0x30, 0x99]), r.randrange(256)] + rb(6)
            gl = r.choice([0, 0, 4, 8, 12, 20]) if g[0] == 0x11 else r.choice([0, 0, 8, 16])
            out.append({'kind': 'igmp', 'src': [], 'dst': [], 'hdr': g, 'payload': rb(gl)})
    for ihl in range(5, 16):
        for rep in range(6 if tier == 'quick' else 40):
            h = rb(4 * ihl)
            h[0] = 0x40 | ihl
            tl = 4 * ihl + r.randrange(0, 100)
            h[2], h[3] = tl >> 8, tl & 255
            out.append({'kind': 'ipv4hdr', 'src': [], 'dst': [], 'hdr': h, 'payload': []})
    # received ICMPv6 messages: a correct checksum and every single bit corruption of a small message
    return out


JOBS['C09'] = Job('C09', mc='MC_Checksum', tag='CKS', drive='cks-run', trace='Trace_Checksum',
                  invariants=['SplitIndependence', 'KnownAnswers', 'Emit'],
                  consts_quick={'Alphabet': '{1, 255}', 'MaxLen': 8}, consts_thorough={'Alphabet': '{0, 1, 255}', 'MaxLen': 9},
                  extra=cks_extra,
                  describe='one case = one chunking of a byte string into add_2/4/8/16bytes / add_slice calls (the folded sum of all three register widths is '
                           'validated after every call), a saturated wide register, or one header+payload+address set run through every checksum function of a protocol',
                  assumptions=['TLC explores the 16 bit machine; the 32/64 bit registers of the implementation are bound per step on directed (saturating) and seeded inputs, not exhausted',
                               'little endian host (the pre-loaded register test assumes it)',
                               'UDP over IPv6 jumbograms (payload > 65527) are not generated'])


def run(pid, tier, seed, replay=None):
    return run_job(JOBS[pid], pid, tier, seed, replay)
