"""table of the 'independent cases' checks (see simple.py)"""
import random
from .simple import Job, run_job

V6 = '{0, 60, 43, 44, 51, 17}'


def ext_extra(tier, seed):
    # seeded configurations over a larger link alphabet (values the model's V does not contain)
    r = random.Random(seed * 31 + 12)
    vals = [0, 60, 43, 44, 51, 17, 6, 58, 59, 255, 41]
    out = []
    for _ in range(2000 if tier == 'quick' else 40000):
        c = {k: (r.choice(vals) if r.random() < 0.55 else -1) for k in ('hbh', 'dst', 'route', 'frag', 'auth', 'fdst')}
        if c['route'] == -1:
            c['fdst'] = -1
        c['first'] = r.choice(vals)
        out.append(c)
    return out


def ext_tag_props(tag):
    # a panic of a walker is also a totality violation (C02 names these unwrap() sites); C10 reaches write via the builder
    return ['C12']


JOBS = {
    'C12': Job('C12', mc='MC_ExtChain', tag='CONFIG', drive='ext-run', trace='Trace_ExtChain',
               invariants=['Total', 'NoSilentDrop', 'Closed', 'SetThenWalk', 'DecodeInverse', 'Emit'],
               consts_quick={'V': V6, 'MaxPresent': 3}, consts_thorough={'V': V6, 'MaxPresent': 6},
               extra=ext_extra, tag_props=ext_tag_props,
               describe='one case = one configuration of the six optional extension headers (each absent or linking to a value of V) x first header; '
                        'all walkers of the crate are run on it and compared with the walk machine of spec/ExtChain.tla',
               assumptions=['extension payload contents are irrelevant for the bookkeeping (fixed lengths 8/16/8/8/16/24 distinguish the slots)',
                            'link alphabet {0,60,43,44,51,17} exhaustively (quick: at most 3 headers present), other values seeded']),
}


def run(pid, tier, seed, replay=None):
    return run_job(JOBS[pid], pid, tier, seed, replay)
