"""table of the 'independent cases' checks (see simple.py)"""
import random
from .simple import Job, run_job

V6 = '{0, 60, 43, 44, 51, 17}'


def ext_extra(tier, seed):
    # seeded configurations over a larger link alphabet (values the model's V does not contain)
    r = random.Random(seed * 31 + 12)
    vals = [0, 60, 43, 44, 51, 17, 6, 58, 59, 255, 41]
    out = []
    for _ in range(2000 if tier == 'quick' else 40000):
        c = {k: (r.choice(vals) if r.random() < 0.55 else -1) for k in ('hbh', 'dst', 'route', 'frag', 'auth', 'fdst')}
        if c['route'] == -1:
            c['fdst'] = -1
        c['first'] = r.choice(vals)
        out.append(c)
    return out


def ext_tag_props(tag):
    # a panic of a walker is also a totality violation (C02 names these unwrap() sites); C10 reaches write via the builder
    return ['C12']


JOBS = {
    'C12': Job('C12', mc='MC_ExtChain', tag='CONFIG', drive='ext-run', trace='Trace_ExtChain',
               invariants=['Total', 'NoSilentDrop', 'Closed', 'SetThenWalk', 'DecodeInverse', 'Emit'],
               consts_quick={'V': V6, 'MaxPresent': 3}, consts_thorough={'V': V6, 'MaxPresent': 6},
               extra=ext_extra, tag_props=ext_tag_props,
               describe='one case = one configuration of the six optional extension headers (each absent or linking to a value of V) x first header; '
                        'all walkers of the crate are run on it and compared with the walk machine of spec/ExtChain.tla',
               assumptions=['extension payload contents are irrelevant for the bookkeeping (fixed lengths 8/16/8/8/16/24 distinguish the slots)',
                            'link alphabet {0,60,43,44,51,17} exhaustively (quick: at most 3 headers present), other values seeded']),
}


def opts_extra(tier, seed):
    """seeded raw option areas of 0..44 bytes over the control alphabet and random data, and random element lists"""
    r = random.Random(seed * 17 + 13)
    alpha = [0, 1, 2, 3, 4, 5, 8, 9, 10, 18, 26, 34, 35, 255]
    out = []
    n = 3000 if tier == 'quick' else 100000
    for i in range(n):
        if i % 3 == 2:
            shapes = [[1, []], [2, [r.randrange(256), r.randrange(256)]], [3, [r.randrange(256)]], [4, []],
                      [8, [r.randrange(256) for _ in range(8)]]] + [[5, [r.randrange(256) for _ in range(8 * k)]] for k in (1, 2, 3, 4)]
            out.append({'kind': 'elems', 'bytes': [], 'elems': [r.choice(shapes) for _ in range(r.randrange(0, 9))]})
        else:
            ln = r.randrange(0, 45)
            b = []
            while len(b) < ln:
                x = r.random()
                if x < 0.5:
                    b.append(r.choice(alpha))
                elif x < 0.75:
                    b.append(r.randrange(256))
                else:      # a well formed option
                    b.extend(r.choice([[1], [2, 4, 5, 6], [3, 3, 9], [4, 2], [8, 10] + [7] * 8, [5, 10] + [3] * 8, [5, 18] + [3] * 16]))
            out.append({'kind': 'raw', 'bytes': b[:ln], 'elems': []})
    return out


JOBS['C13'] = Job('C13', mc='MC_TcpOpts', tag='OPTS', drive='opts-run', trace='Trace_TcpOpts',
                  invariants=['RawProps', 'ElemProps', 'Emit'],
                  consts_quick={'MaxTokens': 2, 'MaxElems': 3}, consts_thorough={'MaxTokens': 3, 'MaxElems': 4},
                  extra=opts_extra,
                  describe='one case = one raw option area (every truncation of token sequences + short control strings) iterated per next() call, '
                           'or one element list encoded by try_from_elements / set_options and iterated; compared with spec/TcpOpts.tla',
                  assumptions=['SACK elements are canonical (blocks occupy the first slots of the [Option;3] array)',
                               'option payload bytes do not influence control flow; kind/length bytes are covered by the token alphabet'])


def run(pid, tier, seed, replay=None):
    return run_job(JOBS[pid], pid, tier, seed, replay)
