"""Shared infrastructure of the ./check driver: building the harness against /repo's working tree,
running the harness with crash attribution, running TLC (model checking and sharded trace
validation), known findings, evidence, reporting."""
import fcntl, hashlib, json, os, re, shutil, signal, subprocess, sys, time

VERIF = os.path.dirname(os.path.dirname(os.path.abspath(__file__)))
REPO = os.environ.get('VERIF_DEV_REPO') or '/repo'      # development only: background runs against a snapshot of the repository (vp run --with-repo)
SPEC = os.path.join(VERIF, 'spec')
HARNESS = os.path.join(VERIF, 'harness')
# development only (coverage measurement of the harness, tools/coverage.sh): alternative scratch / evidence directory and binary
WORK = os.environ.get('VERIF_DEV_WORK') or os.path.join(VERIF, 'work')
EVID = os.environ.get('VERIF_DEV_EVID') or os.path.join(VERIF, 'evidence')
JAVA_OPTS = '-Xss64m'


class ToolError(Exception):
    """a failure of the machinery itself (exit code 2), never reported as a violation"""


def log(*a):
    print('[check]', *a, file=sys.stderr, flush=True)


def workdir(pid):
    d = os.path.join(WORK, pid)
    os.makedirs(d, exist_ok=True)
    return d


# ---------------------------------------------------------------------------
# harness build (always against /repo's current working tree; cargo decides what is stale)
def build_harness(release=False):
    os.makedirs(WORK, exist_ok=True)
    if os.environ.get('VERIF_DEV_BIN'):
        return (release and os.environ.get('VERIF_DEV_BIN_RELEASE')) or os.environ['VERIF_DEV_BIN']
    lock = open(os.path.join(WORK, '.build.lock'), 'w')
    fcntl.flock(lock, fcntl.LOCK_EX)
    try:
        lockfile = os.path.join(HARNESS, 'Cargo.lock')
        if not os.path.exists(lockfile):
            shutil.copy(os.path.join(REPO, 'Cargo.lock'), lockfile)
        cmd = ['cargo', 'build', '--offline', '--quiet'] + (['--release'] if release else [])
        env = dict(os.environ, CARGO_NET_OFFLINE='true')
        t0 = time.time()
        p = subprocess.run(cmd, cwd=HARNESS, env=env, stdout=subprocess.PIPE, stderr=subprocess.STDOUT, text=True)
        if p.returncode != 0:
            raise ToolError('harness build failed:\n' + p.stdout[-4000:])
        log('harness build %s %.1fs' % ('release' if release else 'debug', time.time() - t0))
    finally:
        fcntl.flock(lock, fcntl.LOCK_UN)
        lock.close()
    return os.path.join(HARNESS, 'target', 'release' if release else 'debug', 'drive')


# ---------------------------------------------------------------------------
# running the harness: a fatal signal is data (C01/C02), attributed to the marked case
def run_drive(binary, args, out, wd, timeout=1800, max_crashes=12):
    """runs `drive <args> --out out`; returns list of crashes [{'id', 'signal', 'stderr'}]"""
    marker = os.path.join(wd, 'marker.' + os.path.basename(out))
    crashes = []
    skip = []
    while True:
        cmd = [binary] + args + ['--out', out, '--marker', marker]
        if skip:
            cmd += ['--skip', ','.join(skip)]
        try:
            p = subprocess.run(cmd, stdout=subprocess.PIPE, stderr=subprocess.PIPE, text=True, timeout=timeout)
        except subprocess.TimeoutExpired:
            cid = open(marker).read().strip() if os.path.exists(marker) else '?'
            crashes.append({'id': cid, 'signal': 'TIMEOUT', 'stderr': 'case did not finish within %ds' % timeout})
            skip.append(cid)
            if len(crashes) >= max_crashes:
                break
            continue
        if p.returncode == 0:
            break
        if p.returncode > 0 and p.returncode != 134:
            raise ToolError('drive failed (exit %d): %s' % (p.returncode, p.stderr[-2000:]))
        cid = open(marker).read().strip() if os.path.exists(marker) else '?'
        sig = -p.returncode if p.returncode < 0 else 6
        try:
            signame = signal.Signals(sig).name
        except ValueError:
            signame = str(sig)
        api = open(marker + '.api').read().strip() if os.path.exists(marker + '.api') else ''
        crashes.append({'id': cid, 'signal': signame, 'stderr': p.stderr[-1500:], 'api': api})
        skip.append(cid)
        if len(crashes) >= max_crashes:
            log('too many crashes, giving up re-running')
            break
    if crashes and os.path.exists(out):
        # after giving up the last line may be incomplete: keep complete lines only
        data = open(out, 'rb').read()
        if not data.endswith(b'\n'):
            data = data[:data.rfind(b'\n') + 1] if b'\n' in data else b''
            open(out, 'wb').write(data)
    return crashes


# ---------------------------------------------------------------------------
# TLC
def _tlc_env(extra=None, deque=False):
    env = dict(os.environ)
    opts = JAVA_OPTS + (' -Dtlc2.tool.queue.IStateQueue=StateDeque' if deque else '')
    env['JAVA_TOOL_OPTIONS'] = opts
    if extra:
        env.update(extra)
    return env


def write_cfg(path, spec=None, init=None, next_=None, constants=None, invariants=(), properties=(), post=None, view=None, constraint=None):
    lines = []
    if spec:
        lines.append('SPECIFICATION ' + spec)
    if init:
        lines.append('INIT ' + init)
        lines.append('NEXT ' + next_)
    for k, v in (constants or {}).items():
        lines.append('CONSTANT %s = %s' % (k, v))
    for i in invariants:
        lines.append('INVARIANT ' + i)
    for i in properties:
        lines.append('PROPERTY ' + i)
    if post:
        lines.append('POSTCONDITION ' + post)
    if view:
        lines.append('VIEW ' + view)
    if constraint:
        lines.append('CONSTRAINT ' + constraint)
    lines.append('CHECK_DEADLOCK FALSE')
    open(path, 'w').write('\n'.join(lines) + '\n')


def tla_set(xs):
    return '{' + ', '.join('"%s"' % x for x in sorted(xs)) + '}'


STAT_RE = re.compile(r'(\d[\d,]*) states generated, (\d[\d,]*) distinct states found')


def parse_stats(out):
    m = None
    for m in STAT_RE.finditer(out):
        pass
    if not m:
        return 0, 0
    return int(m.group(1).replace(',', '')), int(m.group(2).replace(',', ''))


def tla_unescape(s):
    # TLC prints strings with \" and \\ escapes
    return s.replace('\\"', '"').replace('\\\\', '\\')


def run_tlc(module, cfg, wd, workers=8, timeout=1800, extra_env=None, deque=False, extra_args=(), xmx='6g'):
    """runs TLC on spec/<module>.tla with config file cfg; returns (stdout, generated, distinct).
    Raises ToolError on parse errors / timeouts; invariant violations are returned in stdout."""
    # Model checking a specification module depends on the specification files and the configuration only (not on /repo):
    # its output is reused when another check of the same session asks for exactly the same run.
    key = None
    if module.startswith('MC_') and not extra_env and '-simulate' not in extra_args and not os.environ.get('VERIF_NO_TLC_CACHE'):
        import hashlib
        h = hashlib.sha256()
        h.update(module.encode()); h.update(open(cfg, 'rb').read()); h.update(repr(list(extra_args)).encode())
        for f in sorted(os.listdir(SPEC)):
            if f.endswith('.tla'):
                h.update(f.encode()); h.update(open(os.path.join(SPEC, f), 'rb').read())
        key = os.path.join(WORK, 'tlc_cache', h.hexdigest() + '.out')
        if os.path.exists(key):
            out = open(key).read()
            gen, dist = parse_stats(out)
            log('TLC %s: %d generated, %d distinct (same run reused from this session)' % (module, gen, dist))
            return out, gen, dist
    meta = os.path.join(wd, 'tlc.' + os.path.basename(cfg) + '.%d' % os.getpid())
    shutil.rmtree(meta, ignore_errors=True)
    cmd = ['tlc', '-workers', str(workers), '-metadir', meta, '-cleanup', '-noGenerateSpecTE', '-config', cfg] + list(extra_args) + [module + '.tla']
    env = _tlc_env(extra_env, deque)
    env['JAVA_TOOL_OPTIONS'] += ' -XX:ParallelGCThreads=%d -Xmx%s' % (max(1, workers // 2), xmx)
    t0 = time.time()
    try:
        p = subprocess.run(cmd, cwd=SPEC, env=env, stdout=subprocess.PIPE, stderr=subprocess.STDOUT, text=True, timeout=timeout)
    except subprocess.TimeoutExpired:
        raise ToolError('TLC timed out after %ds on %s' % (timeout, module))
    finally:
        shutil.rmtree(meta, ignore_errors=True)
    out = p.stdout
    if 'Parsing or semantic analysis failed' in out or 'Error: TLC threw an unexpected exception' in out \
            or ('was violated' not in out and 'is violated' not in out and 'No error has been found' not in out and p.returncode != 0):
        raise ToolError('TLC failed on %s (exit %d):\n%s' % (module, p.returncode, out[-6000:]))
    gen, dist = parse_stats(out)
    log('TLC %s: %d generated, %d distinct, %.1fs' % (module, gen, dist, time.time() - t0))
    if key and tlc_violation(out) is None:
        os.makedirs(os.path.dirname(key), exist_ok=True)
        tmp = key + '.%d' % os.getpid()
        open(tmp, 'w').write(out)
        os.replace(tmp, key)
        old = sorted((os.path.join(os.path.dirname(key), f) for f in os.listdir(os.path.dirname(key))), key=os.path.getmtime)
        for f in old[:-40]:
            try:
                os.remove(f)
            except OSError:
                pass
    return out, gen, dist


def tlc_violation(out):
    """name of the violated invariant / property of a model checking run, or None"""
    m = re.search(r'Invariant (\S+) is violated', out)
    if m:
        return m.group(1)
    if 'Temporal properties were violated' in out:
        return 'temporal property'
    if 'The first argument of Assert evaluated to FALSE' in out:
        return 'Assert'
    return None


def extract_lines(out, tag):
    """lines printed by  PrintT(<<"TAG", ToJson(x)>>)  -> list of parsed json values"""
    res = []
    pre = '<<"%s", "' % tag
    for line in out.splitlines():
        if line.startswith(pre) and line.endswith('">>'):
            res.append(json.loads(tla_unescape(line[len(pre):-3])))
    return res


def validate_trace(module, trace, wd, constants, shards=8, timeout=1800, group_key=None):
    """impl -> spec: validates an ndjson trace with spec/<module>.tla, cut into shards that are validated by up to `shards`
    concurrent TLC processes (events are independent unless group_key is given: then events with the same key stay in one
    shard, in order).  The trace is streamed: a shard never holds more than ~120 MB of ndjson, whatever the size of the trace.
    Returns dict(events, bad, known, generated, distinct)."""
    size = os.path.getsize(trace)
    if size == 0:
        raise ToolError('empty trace ' + trace)
    limit = min(120_000_000, max(size // shards + 1, 200_000))
    files = []          # (path, number of events)
    cur, cur_n, cur_size, lastkey = None, 0, 0, None

    def close():
        nonlocal cur, cur_n, cur_size
        if cur is not None:
            cur.close()
            files.append((cur.name, cur_n))
        cur, cur_n, cur_size = None, 0, 0
    with open(trace) as f:
        for line in f:
            if not line.strip():
                continue
            key = group_key(json.loads(line)) if group_key else None
            boundary = group_key is None or key != lastkey
            lastkey = key
            if cur is not None and cur_size >= limit and boundary:
                close()
            if cur is None:
                cur = open(os.path.join(wd, 'shard%d.%s' % (len(files), os.path.basename(trace))), 'w')
            cur.write(line if line.endswith('\n') else line + '\n')
            cur_n += 1
            cur_size += len(line)
    close()
    if not files:
        raise ToolError('empty trace ' + trace)
    cfg = os.path.join(wd, module + '.cfg')
    write_cfg(cfg, spec='TraceSpec', constants=constants, invariants=['Report'], post='TraceAccepted')
    res = {'events': 0, 'bad': [], 'known': set(), 'generated': 0, 'distinct': 0}
    t0 = time.time()
    err = None
    pending = list(enumerate(files))
    running = []

    def start(i, f):
        meta = os.path.join(wd, 'tlc.shard%d.%d' % (i, os.getpid()))
        shutil.rmtree(meta, ignore_errors=True)
        env = _tlc_env({'TRACE': f}, deque=True)
        env['JAVA_TOOL_OPTIONS'] += ' -Xmx3g -XX:ParallelGCThreads=1 -XX:CICompilerCount=2'
        cmd = ['tlc', '-workers', '1', '-metadir', meta, '-cleanup', '-noGenerateSpecTE', '-config', cfg, module + '.tla']
        out = open(f + '.out', 'w')
        return subprocess.Popen(cmd, cwd=SPEC, env=env, stdout=out, stderr=subprocess.STDOUT, text=True), meta, out

    while pending or running:
        while pending and len(running) < shards:
            i, (f, cnt) = pending.pop(0)
            p, meta, outf = start(i, f)
            running.append((p, f, meta, cnt, outf))
        still = []
        for p, f, meta, cnt, outf in running:
            if p.poll() is None:
                if time.time() - t0 > timeout:
                    p.kill()
                    err = 'trace validation timed out (%s)' % module
                else:
                    still.append((p, f, meta, cnt, outf))
                    continue
            outf.close()
            shutil.rmtree(meta, ignore_errors=True)
            out = open(f + '.out').read()
            os.remove(f + '.out')
            if err and 'timed out' in err and p.returncode is not None and p.returncode < 0:
                continue
            r = extract_lines(out, 'TRACE-RESULT')
            if not r or 'No error has been found' not in out:
                err = 'trace validation failed (%s, %s):\n%s' % (module, f, out[-5000:])
                continue
            r = r[-1]
            if r['events'] != cnt:
                err = 'trace validation consumed %d of %d events (%s)' % (r['events'], cnt, f)
                continue
            res['events'] += r['events']
            res['bad'].extend(r['bad'])
            res['known'].update(r['known'])
            g, d = parse_stats(out)
            res['generated'] += g
            res['distinct'] += d
            os.remove(f)
        running = still
        if err and 'timed out' in err:
            for p, f, meta, cnt, outf in running:
                p.kill()
            pending = []
        if running:
            time.sleep(0.05)
    if err:
        raise ToolError(err)
    log('trace validation %s: %d events, %d mismatches, %.1fs' % (module, res['events'], len(res['bad']), time.time() - t0))
    return res


# ---------------------------------------------------------------------------
# known findings
def known_findings():
    return json.load(open(os.path.join(VERIF, 'known_findings.json')))


def known_dev_ids(kf=None):
    kf = kf or known_findings()
    return sorted(f['id'] for f in kf['findings'])


# ---------------------------------------------------------------------------
# evidence + reporting
def write_evidence(pid, tier, seed, level, coverage, wall, violations, assumptions):
    os.makedirs(EVID, exist_ok=True)
    ev = {'property_id': pid, 'tier': tier, 'seed': seed, 'level': level, 'coverage': coverage,
          'assumptions': assumptions, 'wall_s': round(wall, 2), 'violations': violations}
    tmp = os.path.join(EVID, pid + '.json.tmp')
    json.dump(ev, open(tmp, 'w'), indent=1, sort_keys=True)
    os.replace(tmp, os.path.join(EVID, pid + '.json'))


def finish(pid, violations, known_hit, wd):
    """prints KNOWN-FINDING / VIOLATION lines, returns the exit code.
    violations: list of dicts (each written as one replay file)."""
    kf = known_findings()
    for f in kf['findings']:
        if f['property'] == pid:
            hit = ' (observed in this run)' if f['id'] in known_hit else ''
            print('KNOWN-FINDING: property=%s %s: %s%s' % (pid, f['id'], f['what'], hit))
    if not violations:
        print('OK property=%s' % pid)
        return 0
    seen = set()
    n = 0
    for v in violations:
        key = v.get('class', json.dumps(v, sort_keys=True)[:200])
        if key in seen:
            continue
        seen.add(key)
        n += 1
        if n > 10:
            break
        path = os.path.join(wd, 'viol_%d.json' % n)
        json.dump(v, open(path, 'w'), indent=1)
        print('VIOLATION property=%s replay=%s' % (pid, os.path.relpath(path, VERIF)))
        print('  ' + v.get('summary', ''))
    return 1
